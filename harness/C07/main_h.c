/*
 * C07 harness, exit-status honesty at the top: the real main.c is included verbatim.
 * compCmd is replaced by its contract (returns the number n of errors printed, n chosen beforehand as
 * a ghost so that a counterexample names it); what the OS sees of main's return value r is r & 0xff.
 */
#include "axlgen.h"
#ifdef NATIVE_REPLAY
# define main aldor_real_main		/* the replay program has its own main */
#endif
#include "main.c"
#ifdef NATIVE_REPLAY
# undef main
#endif

#include "vharness.h"

int g_errors_printed;	/* "(Error)" lines printed so far */
int g_interactive;
int g_n;		/* ghost choice: the number of errors this run prints */
#define C_MAIN_ONLY
#include "c_main.h"

int osFixCmdLine(int *pargc, char ***pargv) { return 0; }	/* environment: leaves the command line alone */

#ifdef NATIVE_REPLAY
/* stand-in for compCmd in the replay program: prints (= counts) g_n errors and returns the count,
 * exactly what c_compCmd_n says */
int compCmd(int argc, char **argv) { g_errors_printed = g_n; g_interactive = 0; return g_n; }
#endif

void h_main(void)
{
	INPUT(int, n);
	INPUT(int, argc);
	String *argv = 0;
	int r;
	ASSUME(C07_N_RANGE(n));
	g_n = n;
	g_errors_printed = 0;
	CONTRACT_PRE(PRE_main);
#ifdef NATIVE_REPLAY
	r = aldor_real_main(argc, argv);
#else
	r = main(argc, argv);
#endif
	CONTRACT_POST("c_main.postcondition", POST_main(r));
	VREACH();
}

#ifdef NATIVE_REPLAY
V_NATIVE_MAIN(ENTRY)
#endif
