/*
 * C07 harness, character-indexed tables in genc.c: the real genc.c is included verbatim; the real
 * gc0InitSpecialChars() is run first (it fills gcvIdChars[] / gcvIdCharc[] from the real
 * ccSpecCharIdTable[]), then the real gc0ValidIdInBuf is called on an arbitrary NUL-terminated string.
 * The Buffer is a fixed-capacity harness model of the six buffer.c operations used (the real growable buffer
 * makes the verifier run out of memory); overflowing the model is itself a failed obligation.
 * Plain harness (no dfcc): the tables keep their initialisers.
 */
/* CBMC 6.11 aborts on an array used through an incomplete `extern T a[];' declaration (genc.h) that is
 * completed only at the end of the unit; this redeclaration only completes the type (32 special
 * characters + the {0,0} terminator; a smaller number would be a compile error) */
#include "axlobs.h"
#include "genc.h"
extern struct ccSpecCharId_info ccSpecCharIdTable[33];
#include "genc.c"
#include "vharness.h"
#define V_STUB_BUG_UNREACHABLE
#define V_STUB_STO
#include "stubs.h"
#include <string.h>
#define C_TOKEN_DECLS_GENC
#include "c_token.h"

/* ---- environment: Buffer model (append-only text buffer) -------------------------------------- */
#define H_BUFCAP 256
#define H_MAXSPELL 16
static char h_b[H_BUFCAP];
static int  h_pos;
static const long h_bufobj;
Buffer bufNew(void)                { h_pos = 0; return (Buffer) &h_bufobj; }
String bufChars(Buffer b)          { return h_b; }
Length bufPosition(Buffer b)       { return (Length) h_pos; }
int    bufAdd1(Buffer b, int c)
{
	CHECK("buffer model: capacity suffices (no hidden bound)", h_pos < H_BUFCAP);
	h_b[h_pos++] = (char) c;
	return 1;
}
int    bufPuts(Buffer b, const char *s)
{
	int n = 0;
	for (; n < H_MAXSPELL && *s; s++, n++) bufAdd1(b, *s);	/* constant-bounded: the longest real spelling has 8 bytes */
	CHECK("buffer model: spelling handed to bufPuts is a string of at most 16 bytes", *s == 0);
	return n;
}
void   bufBack1(Buffer b)          { h_pos--; }

#define H_STRING(s)						\
	INPUT(unsigned long, w0);				\
	INPUT(unsigned long, w1);				\
	char s[C07_STRMAX + 1];					\
	memcpy(s, &w0, C07_STRMAX < 8 ? C07_STRMAX : 8);		\
	if (C07_STRMAX > 8) memcpy(s + 8, &w1, C07_STRMAX - 8);	\
	s[C07_STRMAX] = 0;					\
	CONTRACT_PRE(PRE_cstr16(s))

void h_gc0ValidIdInBuf(void)
{
	H_STRING(s);
	INPUT(int, idlen);	/* -Wid-len: 0 = unlimited */
	INPUT(unsigned, g);	/* ghost index into the bytes appended */
	Buffer buf;
	int r, pos0;
	size_t n = strlen(s);
#ifdef H_BYTES_BELOW_127
	{ unsigned k; for (k = 0; k < C07_STRMAX; k++) ASSUME(s[k] >= 0 && s[k] < 127); }
#endif
	ASSUME(idlen >= 0 && idlen <= 64);
	genCSetIdLen(idlen);
	gc0InitSpecialChars();
	buf = bufNew();
	pos0 = bufPosition(buf);
	r = gc0ValidIdInBuf(buf, s);
	CHECK("c_gc0ValidIdInBuf.postcondition: 0 <= bytes appended <= 8 per source byte", POST_gc0ValidIdInBuf(s, n, r));
	CHECK("c_gc0ValidIdInBuf.postcondition: the buffer grew by exactly the result", (int) bufPosition(buf) - pos0 == r);
	if (g < (unsigned) r)
		CHECK("c_gc0ValidIdInBuf.postcondition: every appended byte is in [A-Za-z0-9_]", C07_IS_CID_BYTE(bufChars(buf)[pos0 + g]));
	VREACH();
}

#ifdef NATIVE_REPLAY
V_NATIVE_MAIN(ENTRY)
#endif
