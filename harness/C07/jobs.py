"""C07 jobs: (1) exit status honest about printed errors, (2) character-indexed tables."""
import os

ASSUMPTIONS = [
    "what the OS sees of main's return value r is r & 0xff (exit(3))",
    "g_errors_printed counts '(Error)' lines; comsgErrorCount() is modelled by the ghost g_file_errors "
    "(errors recorded since comsgInit, all printed by comsgFini)",
    "comsgFatal / bug / failed assert print a message and leave through exit(EXIT_FAILURE)/abort: they never "
    "return to main, so they are outside main's return-value contract",
    "per-file error counts are <= 2^20 and at most 3 files are named (no int overflow of the total): compFilesLoop is class B",
    "callees of compFilesLoop other than the per-file compile functions print no (Error) line except through comsgFatal "
    "(by reading emit.c and ccomp.c: emitLink/emitRun/emitInterp/compAXLmainFile use comsgFatal only)",
]


def jobs(tier):
    js = []
    # ---------------- (1) exit status ---------------------------------------
    def M(name, defs=(), kind="obligation", native=True):
        js.append({"name": name, "src": "main_h.c", "entry": "h_main", "defs": list(defs), "kind": kind,
                   "enforce": ["main/c_main"], "replace": ["compCmd/c_compCmd_n"], "functions": ["main"],
                   "inputs": ["n", "argc"], "cls": "P", "native": native, "timeout": 120,
                   "assumed": ["c_compCmd_n = instance of c_compCmd (enforced in axlcomp.compCmd) for the ghost-chosen n",
                               "osFixCmdLine stub (no effect)"]})
    M("main.exit_status_nonzero_iff_error_printed")
    M("sanity.main.exit_status.fewer_than_256_errors", defs=["-DC07_N_LT_256"])
    M("canary.main.exit_status", defs=["-DC07_N_LT_256", "-DCANARY_main"], kind="canary", native=False)
    AX_ASSUMED = ["environment stubs of axlcomp_h.c (cmdline.c, emit.c, file.c functions: print no (Error) line)"]

    def A(name, fn, entry, replace, cls="P", bound=None, cbmc=(), inputs=(), assumed=(), defs=(), kind="obligation"):
        js.append({"name": name, "src": "axlcomp_h.c", "entry": entry, "enforce": ["%s/c_%s" % (fn, fn)],
                   "defs": list(defs), "kind": kind,
                   "replace": list(replace), "functions": [fn], "inputs": list(inputs), "cls": cls, "bound": bound,
                   "cbmc": ["--object-bits", "12"] + list(cbmc), "native": False, "timeout": 200,
                   "assumed": AX_ASSUMED + list(assumed)})
    W = "_wrapped_for_contract_checking"
    A("axlcomp.compFilesLoop.returns_errors_printed", "compFilesLoop", "h_compFilesLoop",
      ["compInit/c_compInit", "compFini/c_compFini", "compSourceFile/c_compSourceFile", "compSavedFile/c_compSavedFile",
       "compAXLmainFile/c_compAXLmainFile"], cls="B", bound="<= 3 files on the command line, <= 2^20 errors per file",
      cbmc=["--unwindset", ",".join("compFilesLoop%s.%d:6" % (W, i) for i in range(3)), "--unwinding-assertions"],
      inputs=["argc"], assumed=["c_compInit, c_compFini, c_compAXLmainFile (replaced, not enforced: print no (Error) line)"])
    FL = [x for x in js if x["name"] == "axlcomp.compFilesLoop.returns_errors_printed"][0]
    js.append(dict(FL, name="canary.axlcomp.compFilesLoop", kind="canary", defs=["-DCANARY_compFilesLoop"]))
    PH = ["compFileInit/c_compFileInit", "compFileFront/c_compFileFront", "compFileMiddle/c_compFileMiddle",
          "compFileSave/c_compFileSave", "compFileBack/c_compFileBack", "compFileFini/c_compFileFini",
          "compIsMoreAfterFront/c_compIsMoreAfterFront", "compFileLoadFoam/c_compFileLoadFoam"]
    PHA = ["phase contracts c_compFile* (replaced, not enforced): each phase may record errors; compFileFini prints all recorded"]
    A("axlcomp.compSourceFile.returns_errors_printed", "compSourceFile", "h_compSourceFile", PH, assumed=PHA)
    A("axlcomp.compSavedFile.returns_errors_printed", "compSavedFile", "h_compSavedFile", PH, assumed=PHA)
    A("canary.axlcomp.compSourceFile", "compSourceFile", "h_compSourceFile", PH, defs=["-DCANARY_compOneFile"], kind="canary")
    A("axlcomp.compCmd.batch_returns_errors_printed", "compCmd", "h_compCmd",
      ["compFilesLoop/c_compFilesLoop", "compInit/c_compInit", "compFini/c_compFini", "compGLoop/c_compGLoop",
       "compSExprLoop/c_compSExprLoop", "compSEvalLoop/c_compSEvalLoop"], cls="B",
      bound="<= 3 files on the command line (precondition of c_compFilesLoop)", inputs=["argc"])
    # ---------------- (2) character-indexed tables -------------------------------
    KI = ",".join("keyInit.%d:140" % i for i in range(5))

    def T(name, fn, defs=(), kind="obligation", entry=None, strmax=16, timeout=280, extra=()):
        js.append({"name": name, "src": "token_h.c", "entry": entry or ("h_" + fn),
                   "defs": ["-DC07_STRMAX=%d" % strmax] + list(defs), "kind": kind,
                   "functions": [fn, "keyInit"], "inputs": ["w0", "w1"], "cls": "B",
                   "bound": "strings of <= %d bytes (every byte value)" % strmax,
                   "link": ["strops.c"],   # strMatch (keyLongest)
                   "cbmc": ["--sat-solver", "cadical", "--unwindset",
                            ",".join([KI, "%s.0:14" % fn, "strcmp.0:18,strncmp.0:18,strlen.0:18,strMatch.0:18"] + list(extra)),
                            "--unwinding-assertions"],
                   "native": True, "timeout": timeout,
                   "assumed": ["symProbe stub (keyword interning is not part of this check)"]})
    T("token.keyTag.any_bytes", "keyTag")
    T("sanity.token.keyTag.first_byte_7bit", "keyTag", defs=["-DH_FIRST_BYTE_ASCII"])
    T("canary.token.keyTag", "keyTag", defs=["-DH_FIRST_BYTE_ASCII", "-DCANARY_keyTag"], kind="canary")
    # keyLongest: symbolic execution over a symbolic keyword pointer is slow (strMatch + strlen per candidate);
    # quick tier: the failing class with short strings, the passing class with the first byte enumerated
    T("token.keyLongest.any_bytes", "keyLongest", strmax=2)
    T("sanity.token.keyLongest.first_byte_7bit.enumerated", "keyLongest", entry="h_keyLongest_enum7", strmax=8,
      extra=["h_keyLongest_enum7.0:130"])
    def G(name, defs=(), kind="obligation", strmax=8, timeout=280):
        js.append({"name": name, "src": "genc_h.c", "entry": "h_gc0ValidIdInBuf",
                   "defs": ["-DC07_STRMAX=%d" % strmax] + list(defs), "kind": kind,
                   "functions": ["gc0ValidIdInBuf", "gc0InitSpecialChars", "genCSetIdLen"], "inputs": ["w0", "w1", "idlen", "g"],
                   "cls": "B", "bound": "strings of <= %d bytes (every byte value), identifier length limit <= 64" % strmax,
                   "link": ["strops.c"],
                   "cbmc": ["--sat-solver", "cadical", "--object-bits", "12", "--unwind", "20", "--unwindset",
                            "gc0InitSpecialChars.0:260,gc0InitSpecialChars.1:40" + (",h_gc0ValidIdInBuf.0:%d" % (strmax + 2) if "-DH_BYTES_BELOW_127" in defs else ""),
                            "--unwinding-assertions"],
                   "native": True, "timeout": timeout, "assumed": ["fixed-capacity Buffer model in genc_h.c (bufNew/bufAdd1/bufPuts/bufBack1/bufPosition/bufChars)"]})
    # since the fix of the mangler's tables this is a full (UNSAT) proof too: 4 bytes in quick, 8 in thorough
    G("genc.gc0ValidIdInBuf.any_bytes", strmax=4)
    # the passing class is a full (UNSAT) proof and grows quickly with the length: 4 bytes in quick, 8/16 in thorough
    G("sanity.genc.gc0ValidIdInBuf.bytes_below_127", defs=["-DH_BYTES_BELOW_127"], strmax=4)
    G("canary.genc.gc0ValidIdInBuf", defs=["-DH_BYTES_BELOW_127", "-DCANARY_gc0ValidIdInBuf"], kind="canary", strmax=4)
    if tier == "thorough":
        G("genc.gc0ValidIdInBuf.any_bytes.8", strmax=8, timeout=3000)
        if os.environ.get("VERIF_PROBE_UNDECIDED") == "1":      # 16 bytes: no result in 3000 s (SAT, cadical)
            G("genc.gc0ValidIdInBuf.any_bytes.16", strmax=16, timeout=3000)
        G("sanity.genc.gc0ValidIdInBuf.bytes_below_127.8", defs=["-DH_BYTES_BELOW_127"], strmax=8, timeout=3000)
        T("token.keyLongest.any_bytes.16", "keyLongest", timeout=3000)
        T("sanity.token.keyLongest.first_byte_7bit.16", "keyLongest", defs=["-DH_FIRST_BYTE_ASCII"], timeout=3000)
    return js
