/*
 * C07 harnesses, exit-status honesty: the real axlcomp.c (compCmd, compFilesLoop, compSourceFile,
 * compSavedFile) is included verbatim (main.c: see main_h.c).
 * Variadic callees are routed to non-variadic models: goto-instrument --dfcc cannot frame-check a
 * variadic harness body.
 */
#include <stdio.h>
#include "axlgen.h"
#include "comsg.h"
#include "util.h"
#include "format.h"
#include "bloop.h"
extern int  v_nop(void);
extern void v_comsgFatal(void);
extern void v_bug(void);
#define fprintf(...)            v_nop()
#define afprintf(...)           v_nop()
#define bloopMsgFPrintf(...)    v_nop()
#define comsgWarning(...)       v_nop()
#define comsgFatal(...)         v_comsgFatal()
#define bug(...)                v_bug()
#include "axlcomp.c"
#undef fprintf
#undef afprintf
#undef bloopMsgFPrintf
#undef comsgWarning
#undef comsgFatal
#undef bug

#include "vharness.h"
#include "stubs.h"

/* ---- ghost ------------------------------------------------------------------ */
int g_errors_printed;	/* "(Error)" lines printed so far */
int g_file_errors;	/* comsgErrorCount(): errors recorded since comsgInit() */
int g_interactive;	/* compCmd took an interactive route (-G loop, -Wsexpr, -Wseval) */
int g_n;		/* ghost choice: the number of errors this run prints (chosen by the main harness) */
#include "c_main.h"

_Bool nondet_v_bool(void);
int   nondet_v_int(void);

int  v_nop(void)        { return 0; }
void v_comsgFatal(void) { __CPROVER_assume(0); }	/* prints, exits with EXIT_FAILURE: not a return of main */
void v_bug(void)        { __CPROVER_assume(0); }	/* aborts: not a return of main */
int nondet_v_assertions_on(void);
void _do_assert(char *s, char *f, int l) { if (nondet_v_assertions_on()) __CPROVER_assume(0); }	/* assertions are off unless -Wcheck */

/* ---- environment of compFilesLoop (cmdline.c, emit.c, file.c ...): no (Error) line is printed by
 *      any of these other than through comsgFatal (reading emit.c/ccomp.c: comsgFatal only) -------- */
int    cmdFileCount;
Bool   cmdVerboseFlag, cmdTrapFlag;
String cmdName;
String cmdOptionArg;
static struct fileName h_fn;
static struct emitInfo h_fi[C07_MAX_FILES + 1];
static int h_nfi;

int cmdArguments(int argi0, int argc, String *argv)
{
	int iargc = nondet_v_int();
	__CPROVER_assume(iargc >= 1 && iargc <= argc);
	cmdFileCount = argc - iargc;	/* the files are argv[iargc .. argc-1] (cmdline.h) */
	return iargc;
}
Bool     comsgOkBreakLoop(void)            { return nondet_v_bool(); }
void     emitDoneOptions(int argc, String *argv) { }
void     ccGetReady(void)                  { }
MostAlignedType *stoAlloc(unsigned code, ULong size)
{
	void *p = malloc(size ? size : 1);
	__CPROVER_assume(p != 0);
	return (MostAlignedType *) p;
}
void     stoFree(Pointer p)                { }
FileName fnameParse(String s)              { return &h_fn; }	/* parts arbitrary: fnameType(fn) is only passed on */
void     fnameFree(FileName fn)            { }
EmitInfo emitInfoNew(FileName fn)          { __CPROVER_assume(h_nfi <= C07_MAX_FILES); return &h_fi[h_nfi < C07_MAX_FILES ? h_nfi : C07_MAX_FILES]; }
EmitInfo emitInfoNewAXLmain(void)          { return &h_fi[C07_MAX_FILES]; }
void     emitInfoFree(EmitInfo fi)         { }
Bool     fileIsOpenable(FileName fn, IOMode m) { return nondet_v_bool(); }
FTypeNo  ftypeNo(String t)                 { FTypeNo n = (FTypeNo) nondet_v_int(); __CPROVER_assume(n >= FTYPENO_START && n <= FTYPENO_LIMIT); return n; }
Bool     ftypeEqual(String a, String b)    { return nondet_v_bool(); }
void     emitLink(int n, EmitInfo *v)      { if (nondet_v_bool()) v_comsgFatal(); }
void     emitInterp(int argc, String *argv){ }
void     emitRun(int argc, String *argv)   { }
void     emitAllDone(void)                 { }
void     phGrandTotals(Bool v)             { }
int      comsgErrorCount(void)             { return g_file_errors; }

/* environment of compSourceFile / compSavedFile */
AbSyn    breakSetRoot(AbSyn ab)            { return ab; }
void     breakInterrupt(void)              { }
Stab     stabFile(void)                    { return (Stab) 0; }
Bool     emitIsOutputNeededOrWarn(EmitInfo fi, FTypeNo ft) { if (nondet_v_bool()) v_comsgFatal(); return nondet_v_bool(); }
FileName emitFileName(EmitInfo fi, FTypeNo ft) { return &h_fn; }
void     genCpp(AbSyn ab, String d, String n) { }
void     emitTheCpp(void)                  { }
void     foamFree(Foam f)                  { }

/* environment of compCmd */
void     osInit(void)                      { }
Bool     osObtainLicense(void)             { return 1; }
Bool     osIsGUI(void)                     { return nondet_v_bool(); }
String   osGetEnv(String n)                { return (String) 0; }
String   osCurDirName(void)                { return (String) "."; }
Bool     cmdSubsumeResponseFiles(int a, int *pc, String **pv) { return nondet_v_bool(); }
void     cmdEcho(FILE *f, int argc, String *argv) { }
Bool     cmdHasOption(int o, String a, int argc, String *argv) { return nondet_v_bool(); }
Bool     cmdHasOptionPrefix(int o, String a, int argc, String *argv) { return nondet_v_bool(); }
String   strCopyIf(CString s)              { return (String) s; }
void     compCfgSetConfigFile(String s)    { }
void     compCfgSetSysName(String s)       { }
FileName fnameParseStaticWithin(String f, String d) { return &h_fn; }
FileName fnameNew(String d, String n, String t) { return &h_fn; }
String   fnameUnparse(FileName fn)         { return (String) "root"; }

/* ---- harnesses ------------------------------------------------------------------ */
void h_compFilesLoop(void)
{
	INPUT(int, argc);
	char **argv;
	int r = compFilesLoop(argc, argv);
	VREACH();
}

void h_compSourceFile(void)
{
	EmitInfo fi;
	int r = compSourceFile(fi);
	VREACH();
}

void h_compSavedFile(void)
{
	EmitInfo fi;
	int r = compSavedFile(fi);
	VREACH();
}

void h_compCmd(void)
{
	INPUT(int, argc);
	char **argv;
	verPatchLevel = "";	/* dfcc makes globals arbitrary: version.c's constant strings */
	verName = "aldor";
	int r = compCmd(argc, argv);
	VREACH();
}

#ifdef NATIVE_REPLAY
V_NATIVE_MAIN(ENTRY)
#endif
