/*
 * C07 harness, character-indexed tables in token.c: the real token.c is included verbatim; the real
 * keyInit() is run first (it builds keyIx[] from the real tokInfoTable[]), then the real keyTag /
 * keyLongest is called on an arbitrary NUL-terminated string of at most 16 bytes.
 * Plain harness (no dfcc): tokInfoTable[] keeps its C initialiser.
 */
/* CBMC 6.11 aborts (value_sett::assign invariant) when functions use an array through an incomplete
 * `extern T a[];' declaration that is completed only later in the unit, as token.h/token.c do.  This
 * redeclaration only completes the type (one entry per tag, TK_START..TK_LIMIT); a wrong size would be
 * a compile error against the real initialiser, never a silent change. */
#include "axlobs.h"
extern struct tok_info tokInfoTable[TK_LIMIT - TK_START + 1];
#include "token.c"
#include "vharness.h"
#define V_STUB_BUG_UNREACHABLE
#include "stubs.h"
#include <string.h>
#define C_TOKEN_DECLS_TOKEN
#include "c_token.h"

/* environment (both modes): keyInit interns the keyword strings; the symbol table is not part of this check */
Symbol symProbe(String s, int flags) { return (Symbol) 0; }	/* symInternConst(s) = symProbe(s, SYM_ALLOC) */

/* 16 arbitrary bytes as two 64-bit inputs (scalars, so that a counterexample can be replayed), then NUL */
#define H_STRING(s)						\
	INPUT(unsigned long, w0);				\
	INPUT(unsigned long, w1);				\
	char s[C07_STRMAX + 1];					\
	memcpy(s, &w0, C07_STRMAX < 8 ? C07_STRMAX : 8);		\
	if (C07_STRMAX > 8) memcpy(s + 8, &w1, C07_STRMAX - 8);	\
	s[C07_STRMAX] = 0;					\
	CONTRACT_PRE(PRE_cstr16(s))

void h_keyTag(void)
{
	H_STRING(s);
	TokenTag r;
#ifdef H_FIRST_BYTE_ASCII
	ASSUME(PRE_first_byte_ascii(s));
#endif
	keyInit();
	r = keyTag(s);
	CHECK("c_keyTag.postcondition: TK_LIMIT, or the enabled keyword spelled exactly like the string", POST_keyTag(s, r));
	VREACH();
}

void h_keyLongest(void)
{
	H_STRING(s);
	TokenTag r;
#ifdef H_FIRST_BYTE_ASCII
	ASSUME(PRE_first_byte_ascii(s));
#endif
	keyInit();
	r = keyLongest(s);
	CHECK("c_keyLongest.postcondition: TK_LIMIT, or an enabled keyword that is a prefix of the string", POST_keyLongest(s, r));
	VREACH();
}

/* the same obligation with the first byte ENUMERATED over all 127 seven-bit values instead of symbolic (the
 * remaining bytes stay arbitrary): complete for that class, and far cheaper for the verifier because
 * keyIx[ch] and the keyword strings compared against are then concrete in every iteration */
void h_keyLongest_enum7(void)
{
	H_STRING(s);
	TokenTag r;
	int c;
	keyInit();
	for (c = 1; c < 128; c++) {
		s[0] = (char) c;
		r = keyLongest(s);
		CHECK("c_keyLongest.postcondition: TK_LIMIT, or an enabled keyword that is a prefix of the string", POST_keyLongest(s, r));
	}
	VREACH();
}

#ifdef NATIVE_REPLAY
V_NATIVE_MAIN(ENTRY)
#endif
