/* C15: how diagnostics are grouped under a source line (comsg.c:comsgReportFile, real text).
 * comsgReportLine -- the printer of one source line and the messages that point into it -- is replaced by a recording
 * model through the driver's mechanical rename of its DEFINITION (splice "_rename_def"); comsgReportFile, the sort
 * order comsgCmpPtr, lisort (util.c) and sposCmp/sposGlobalLine (srcpos.c) are the real code.
 * Property clause: a message is printed under the line (and so the file) it belongs to: messages share a header
 * only when they are on the same physical line, and sorted output is in position order. */
#include "comsg.c"
#include "vharness.h"
#define V_STUB_BUG_UNREACHABLE
#define V_STUB_STO
#include "stubs.h"
#include "c_srcpos.h"

#define NMSG 3
static int	g_ncalls, g_total;
static int	g_start[NMSG + 1], g_len[NMSG + 1];
static CoMsg   *g_base;
static int	g_grouping_ok;

/* recording model of comsgReportLine(fout, n, v): v[0..n) are printed under the source line of v[0] */
local void comsgReportLine(FILE *fout, int comsgc, CoMsg *comsgv)
{
	int i;
	if (g_ncalls < NMSG) { g_start[g_ncalls] = (int) (comsgv - g_base); g_len[g_ncalls] = comsgc; }
	g_ncalls++;
	g_total += comsgc;
	for (i = 0; i < NMSG; i++)
#ifndef CANARY_comsg
		if (i < comsgc && SP_LNO(comsgv[i]->pos) != SP_LNO(comsgv[0]->pos)) g_grouping_ok = 0;
#else		/* canary: demands that a group also shares the column */
		if (i < comsgc && !SP_KEY_EQ(comsgv[i]->pos, comsgv[0]->pos)) g_grouping_ok = 0;
#endif
}

void h_comsgReportFile(void)
{
	INPUT(int, n); INPUT(int, sort);
	INPUT(SrcPos, p0); INPUT(SrcPos, p1); INPUT(SrcPos, p2);
	INPUT(int, gi);			/* ghost: one of the messages */
	struct comsg m[NMSG]; CoMsg v[NMSG]; CoMsg ghost; int i, k, seen;
	SrcPos p[NMSG];
	p[0] = p0; p[1] = p1; p[2] = p2;
	ASSUME(n >= 1 && n <= NMSG && gi >= 0 && gi < n);
	for (i = 0; i < NMSG; i++) {
		ASSUME(SP_WF(p[i]) && SP_MAC(p[i]) == 0 && SP_LNO(p[i]) >= 1 && SP_LNO(p[i]) < (1UL << 31));
		m[i].pos = p[i]; m[i].serial = i; m[i].text = ""; v[i] = &m[i];
	}
	ghost = v[gi];
	comsgIsInit = 1; comsgDoSort = (sort != 0);
	g_ncalls = 0; g_total = 0; g_base = v; g_grouping_ok = 1;
	comsgReportFile((FILE *) 0, n, v);
	CHECK("every message is reported exactly once, in consecutive groups", g_total == n && g_ncalls >= 1 && g_ncalls <= n && g_start[0] == 0);
	CHECK("messages share a header only if they are on the same physical line", g_grouping_ok);
	for (k = 1; k < NMSG; k++) if (k < g_ncalls) {
		CHECK("groups are consecutive", g_start[k] == g_start[k - 1] + g_len[k - 1]);
		CHECK("adjacent groups are different lines (a line's messages are not split)",
		      SP_LNO(v[g_start[k]]->pos) != SP_LNO(v[g_start[k - 1]]->pos));
	}
	if (sort) for (k = 1; k < NMSG; k++) if (k < n)
		CHECK("sorted output is in (line, column) order", !SP_KEY_LT(v[k]->pos, v[k - 1]->pos));
	seen = 0;
	for (k = 0; k < NMSG; k++) if (k < n && v[k] == ghost) seen++;
	CHECK("the set of messages is preserved", seen == 1);
	VREACH();
}

#ifdef NATIVE_REPLAY
V_NATIVE_MAIN(ENTRY)
#endif
