/* C15 harnesses for the global line table of srcpos.c (file statics reached by textual inclusion).
 * Class B: tables of at most TBL_MAX segments (the loops over the table are unwound; sortedness of the
 * table is a quantified precondition, which this CBMC set-up cannot take as a contract clause). */
#include "srcpos.c"
#include "vharness.h"
#define V_STUB_BUG_UNREACHABLE
#define V_STUB_STO
#include "stubs.h"
#include "c_srcpos.h"

#ifndef TBL_MAX
#define TBL_MAX 6
#endif

/* file names are opaque handles here: equality of names is equality of handles (fname.c is not under contract) */
Bool	 fnameEqual(FileName a, FileName b) { return a == b; }
FileName fnameCopy(FileName a)		    { return a; }
void	 fnameFree(FileName a)		    { }

static GLine h_tbl[TBL_MAX + 1];

/* an arbitrary well-formed table: 1..TBL_MAX segments, strictly increasing global line numbers,
 * every segment with a file name (sposNew never stores a null name) */
static int h_make_table(void)
{
	INPUT(int, n);
	int i;
	ASSUME(n >= 1 && n <= TBL_MAX);
	for (i = 0; i < TBL_MAX; i++) {
		INPUT(Length, g); INPUT(Length, f); INPUT(unsigned long, name);
		ASSUME(g >= 1 && g < SP_LNO_LIM - 1 && f < SP_LNO_LIM && name != 0);
		if (i > 0 && i < n) ASSUME(g > h_tbl[i - 1].glno);
		h_tbl[i].glno = g; h_tbl[i].flno = f; h_tbl[i].fn = (FileName) name;
	}
	gloLineTbl = h_tbl; gloArgc = n; gloPos = n;
	return n;
}

/* decoding a position against the table: line and file of the segment that contains the global line */
void h_sposLine_File(void)
{
	int n = h_make_table();
	INPUT(SrcPos, p);
	INPUT(int, j);			/* ghost: the segment containing the position */
	Length g = SP_LNO(p);
	ASSUME(SP_WF(p) && g != 0 && g != SP_LNO_LIM - 1);
	ASSUME(j >= 0 && j < n && h_tbl[j].glno <= g && (j == n - 1 || g < h_tbl[j + 1].glno));
	CHECK("sposLine == global line - segment start + segment's file line", sposLine(p) == g - h_tbl[j].glno + h_tbl[j].flno);
	CHECK("sposFile == the segment's file", sposFile(p) == h_tbl[j].fn);
#ifdef CANARY_sposLine
	CHECK("canary: sposLine ignores the segment's file line", sposLine(p) == g - h_tbl[j].glno);
#endif
	VREACH();
}

/* k-line shift through the table: two tables that differ by k inserted code-free lines before the construct's
 * line in the same segment j give line numbers that differ by exactly k and the same file */
void h_k_shift_table(void)
{
	int n = h_make_table();
	INPUT(SrcPos, p);
	INPUT(Length, k);
	INPUT(int, j);
	Length g = SP_LNO(p), l0; FileName f0; SrcPos q; int i;
	ASSUME(SP_WF(p) && g != 0 && k < (1UL << 20) && g + k < SP_LNO_LIM - 1);
	ASSUME(j >= 0 && j < n && h_tbl[j].glno <= g && (j == n - 1 || g < h_tbl[j + 1].glno));
	l0 = sposLine(p); f0 = sposFile(p);
	/* insert k lines inside segment j before global line g: later segments start k lines later */
	for (i = 0; i < TBL_MAX; i++) if (i > j && i < n) h_tbl[i].glno += k;
	q = sposOffset(sposGet(g + k, SP_CNO(p)), 0);
	CHECK("k inserted lines: reported line grows by exactly k", sposLine(q) == l0 + k);
	CHECK("k inserted lines: same file", sposFile(q) == f0);
	CHECK("k inserted lines: same column", sposChar(q) == sposChar(p));
	VREACH();
}

/* construction: sposNew appends a segment exactly when the file changes or the global line does not advance */
void h_sposNew_table(void)
{
	int n = h_make_table();
	INPUT(unsigned long, name);
	INPUT(Length, flno); INPUT(Length, glno); INPUT(Length, cno);
	INPUT(int, gi);			/* ghost: an old segment */
	FileName fn = (FileName) name;
	GLine old_last = h_tbl[n - 1], old_g;
	SrcPos r; int grows;
	ASSUME(name != 0 && glno >= 1 && glno < SP_LNO_LIM - 1 && flno < SP_LNO_LIM);
	ASSUME(n < TBL_MAX);		/* room for one more segment in the harness table */
	ASSUME(gi >= 0 && gi < n);
	old_g = h_tbl[gi];
	/* stoResize is the allocator stub (realloc): give it a heap table */
	{
		GLine *heap = (GLine *) malloc(sizeof(GLine) * TBL_MAX); int i;
		ASSUME(heap != 0);
		for (i = 0; i < TBL_MAX; i++) heap[i] = h_tbl[i];
		gloLineTbl = heap;
	}
	grows = !(glno > old_last.glno && fn == old_last.fn);
	r = sposNew(fn, flno, glno, cno);
	CHECK("sposNew: position carries the global line", SP_LNO(r) == glno);
	CHECK("sposNew: column exact when representable", cno < SP_CNO_LIM ? SP_CNO(r) == cno : 1);
	CHECK("sposNew: a segment is appended exactly when file changes or line does not advance", gloArgc == n + (grows ? 1 : 0) && gloPos == gloArgc);
	CHECK("sposNew: old segments are untouched", gloLineTbl[gi].glno == old_g.glno && gloLineTbl[gi].flno == old_g.flno && gloLineTbl[gi].fn == old_g.fn);
	if (grows) {
		CHECK("sposNew: the new segment maps the global line to the given file and file line",
		      gloLineTbl[n].glno == glno && gloLineTbl[n].flno == flno && gloLineTbl[n].fn == fn);
		if (glno > old_last.glno) {	/* table still sorted: decode what was just built */
			CHECK("sposLine(sposNew(fn, flno, glno, c)) == flno in a fresh segment", sposLine(r) == flno);
			CHECK("sposFile(sposNew(fn, ...)) == fn in a fresh segment", sposFile(r) == fn);
		}
	} else {
		CHECK("sposLine(sposNew(...)) continues the last segment", sposLine(r) == glno - old_last.glno + old_last.flno);
		CHECK("sposFile(sposNew(...)) is the last segment's file", sposFile(r) == old_last.fn);
	}
	VREACH();
}

#ifdef NATIVE_REPLAY
V_NATIVE_MAIN(ENTRY)
#endif
