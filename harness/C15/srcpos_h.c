/* C15 harnesses for the packed source position: the real srcpos.c is included verbatim. */
#include "srcpos.c"
#include "vharness.h"
#define V_STUB_BUG_UNREACHABLE
#define V_STUB_STO
#include "stubs.h"
#include "c_srcpos.h"

void h_sposChar(void)
{
	INPUT(SrcPos, p);
	Length r = sposChar(p);
	CONTRACT_POST("c_sposChar.postcondition", POST_sposChar(p, r));
	VREACH();
}

void h_sposGlobalLine(void)
{
	INPUT(SrcPos, p);
	Length r = sposGlobalLine(p);
	CONTRACT_POST("c_sposGlobalLine.postcondition", POST_sposGlobalLine(p, r));
	VREACH();
}

void h_sposGet(void)
{
	INPUT(Length, glno);
	INPUT(Length, cno);
	CONTRACT_PRE(PRE_sposGet(glno, cno));
	SrcPos r = sposGet(glno, cno);
	CONTRACT_POST("c_sposGet.postcondition", POST_sposGet(glno, cno, r));
	VREACH();
}

void h_sposOffset(void)
{
	INPUT(SrcPos, p);
	INPUT(int, c);
	CONTRACT_PRE(PRE_sposOffset(p, c));
	SrcPos r = sposOffset(p, c);
	CONTRACT_POST("c_sposOffset.postcondition", POST_sposOffset(p, c, r));
	VREACH();
}

void h_sposMacroExpanded(void)
{
	INPUT(SrcPos, p);
	SrcPos r = sposMacroExpanded(p);
	CONTRACT_POST("c_sposMacroExpanded.postcondition", POST_sposMacroExpanded(p, r));
	VREACH();
}

void h_sposIsMacroExpanded(void)
{
	INPUT(SrcPos, p);
	Bool r = sposIsMacroExpanded(p);
	CONTRACT_POST("c_sposIsMacroExpanded.postcondition", POST_sposIsMacroExpanded(p, r));
	VREACH();
}

void h_sposCmp(void)
{
	INPUT(SrcPos, p);
	INPUT(SrcPos, q);
	CONTRACT_PRE(PRE_spos2(p, q));
	int r = sposCmp(p, q);
	CONTRACT_POST("c_sposCmp.postcondition", POST_sposCmp(p, q, r));
	VREACH();
}

void h_sposEqual(void)
{
	INPUT(SrcPos, p);
	INPUT(SrcPos, q);
	CONTRACT_PRE(PRE_spos2(p, q));
	Bool r = sposEqual(p, q);
	CONTRACT_POST("c_sposEqual.postcondition", POST_sposEqual(p, q, r));
	VREACH();
}

void h_sposMin(void)
{
	INPUT(SrcPos, p);
	INPUT(SrcPos, q);
	CONTRACT_PRE(PRE_spos2(p, q));
	SrcPos r = sposMin(p, q);
	CONTRACT_POST("c_sposMin.postcondition", POST_sposMin(p, q, r));
	VREACH();
}

void h_sposMax(void)
{
	INPUT(SrcPos, p);
	INPUT(SrcPos, q);
	CONTRACT_PRE(PRE_spos2(p, q));
	SrcPos r = sposMax(p, q);
	CONTRACT_POST("c_sposMax.postcondition", POST_sposMax(p, q, r));
	VREACH();
}

void h_sposIsSpecial(void)
{
	INPUT(SrcPos, p);
	int r = sposIsSpecial(p);
	CONTRACT_POST("c_sposIsSpecial.postcondition", POST_sposIsSpecial(p, r));
	VREACH();
}

void h_sposTop(void)
{
	SrcPos r = sposTop();
	CONTRACT_POST("c_sposTop.postcondition", POST_sposTop(r));
	VREACH();
}

void h_sposEnd(void)
{
	SrcPos r = sposEnd();
	CONTRACT_POST("c_sposEnd.postcondition", POST_sposEnd(r));
	VREACH();
}

/* round trip lemma over the contracts: decode(get(l,c)) == (l,c); callee contracts only */
void h_lemma_get_decode(void)
{
	INPUT(Length, glno);
	INPUT(Length, cno);
	ASSUME(glno < SP_LNO_LIM && cno < SP_CNO_LIM);
	SrcPos r = sposGet(glno, cno);
	CHECK("lemma: sposGlobalLine(sposGet(l,c)) == l", sposGlobalLine(r) == glno);
	CHECK("lemma: sposChar(sposGet(l,c)) == c", sposChar(r) == cno);
	CHECK("lemma: fresh position is not macro expanded", !sposIsMacroExpanded(r));
	VREACH();
}

/* k-line shift corollary on the packed word: positions built for line l and l+k, same column,
 * offset by the same amount, decode to lines differing by exactly k and equal columns.
 * Run twice: (1) over the CONTRACTS (callees replaced) for representable columns, (2) on the REAL
 * bodies for every column, representable or not -- the property quantifies over 20000-character lines. */
void h_lemma_shift(void)
{
	INPUT(Length, glno);
	INPUT(Length, k);
	INPUT(Length, cno);
	INPUT(int, c);
	ASSUME(glno < SP_LNO_LIM && k < SP_LNO_LIM && glno + k < SP_LNO_LIM && c >= 0);
#ifdef LEMMA_OVER_CONTRACTS
	ASSUME(cno < SP_CNO_LIM && cno + (Length) c < SP_CNO_LIM);
#endif
	SrcPos a = sposOffset(sposGet(glno, cno), c);
	SrcPos b = sposOffset(sposGet(glno + k, cno), c);
	CHECK("lemma: line grows by exactly k", sposGlobalLine(b) == sposGlobalLine(a) + k);
	CHECK("lemma: column unchanged by line insertion", sposChar(b) == sposChar(a));
	VREACH();
}

/* spstack immediate form keeps the position */
void h_spstack_immed(void)
{
	INPUT(SrcPos, p);
	ASSUME(SP_WF(p));
	SrcPosStack s = spstackSetFirst(spstackEmpty, p);
	CHECK("spstackFirst(spstackSetFirst(empty,p)) == p", spstackFirst(s) == p);
	CHECK("immediate stack has empty rest", spstackRest(s).stack == NULL);
	VREACH();
}

#ifdef NATIVE_REPLAY
V_NATIVE_MAIN(ENTRY)
#endif
