"""C15 jobs: packed source position (proof, loop-free, full 64-bit domain) and the global line table."""

ASSUMPTIONS = [
    "global line table jobs are BOUNDED (<= 6 segments) and assume the table sorted by strictly increasing global line number, as include.c builds it; include.c's #line / #include state machine itself is not under contract",
    "the abstract field layout (mac:1, cno:14, lno:48, one free top bit) is taken from srcpos.c's header comment",
    "positions handed to the order functions have the top (spstack) bit clear (SP_WF), as every constructor ensures",
]

PURE = [
    # function,               inputs
    ("sposChar",            ["p"]),
    ("sposGlobalLine",      ["p"]),
    ("sposGet",             ["glno", "cno"]),
    ("sposOffset",          ["p", "c"]),
    ("sposMacroExpanded",   ["p"]),
    ("sposIsMacroExpanded", ["p"]),
    ("sposCmp",             ["p", "q"]),
    ("sposEqual",           ["p", "q"]),
    ("sposMin",             ["p", "q"]),
    ("sposMax",             ["p", "q"]),
    ("sposIsSpecial",       ["p"]),
    ("sposTop",             []),
    ("sposEnd",             []),
]


def jobs(tier):
    js = []
    for fn, ins in PURE:
        js.append({"name": "srcpos." + fn, "src": "srcpos_h.c", "entry": "h_" + fn,
                   "enforce": ["%s/c_%s" % (fn, fn)], "functions": [fn], "inputs": ins,
                   "native": True, "cls": "P", "timeout": 120})
    # lemmas over the contracts: callees replaced by their contracts, nothing inlined
    js.append({"name": "srcpos.lemma_get_decode", "src": "srcpos_h.c", "entry": "h_lemma_get_decode",
               "replace": ["sposGet/c_sposGet", "sposChar/c_sposChar", "sposGlobalLine/c_sposGlobalLine",
                           "sposIsMacroExpanded/c_sposIsMacroExpanded"],
               "functions": [], "inputs": ["glno", "cno"], "native": True, "cls": "P", "timeout": 120})
    js.append({"name": "srcpos.k_line_shift_real_bodies_all_columns", "src": "srcpos_h.c", "entry": "h_lemma_shift",
               "functions": ["sposGet", "sposOffset", "sposChar", "sposGlobalLine"],
               "inputs": ["glno", "k", "cno", "c"], "native": True, "cls": "P", "timeout": 120})
    js.append({"name": "srcpos.lemma_k_line_shift", "src": "srcpos_h.c", "entry": "h_lemma_shift",
               "defs": ["-DLEMMA_OVER_CONTRACTS"],
               "replace": ["sposGet/c_sposGet", "sposOffset/c_sposOffset", "sposChar/c_sposChar",
                           "sposGlobalLine/c_sposGlobalLine"],
               "functions": [], "inputs": ["glno", "k", "cno", "c"], "native": True, "cls": "P", "timeout": 120})
    js.append({"name": "srcpos.spstack_immediate", "src": "srcpos_h.c", "entry": "h_spstack_immed",
               "functions": ["spstackSetFirst", "spstackFirst", "spstackRest"], "inputs": ["p"],
               "native": True, "cls": "P", "timeout": 120})
    # canaries: a deliberately wrong postcondition must be refuted
    for fn in ("sposOffset", "sposGet", "sposCmp"):
        js.append({"name": "canary.srcpos." + fn, "kind": "canary", "src": "srcpos_h.c", "entry": "h_" + fn,
                   "defs": ["-DCANARY_" + fn], "enforce": ["%s/c_%s" % (fn, fn)], "functions": [fn],
                   "cls": "P", "timeout": 120})
    # ---- global line table (class B: at most 6 segments; loops over the table unwound) ----
    TB = ["--unwind", "8", "--unwinding-assertions"]
    bound = "global line table of <= 6 segments with strictly increasing global line numbers"
    for nm, entry, fns, defs, kind in (
            ("srcpos.table.sposLine_sposFile", "h_sposLine_File", ["sposLine", "sposFile", "sposIsSpecial", "sposGlobalLine"], [], "obligation"),
            ("srcpos.table.k_line_shift", "h_k_shift_table", ["sposLine", "sposFile", "sposGet", "sposOffset", "sposChar"], [], "obligation"),
            ("srcpos.table.sposNew_segments", "h_sposNew_table", ["sposNew", "sposGrowGloLineTbl", "sposLine", "sposFile"], [], "obligation"),
            ("canary.srcpos.table.sposLine", "h_sposLine_File", ["sposLine"], ["-DCANARY_sposLine"], "canary")):
        js.append({"name": nm, "src": "srcpos_tbl_h.c", "entry": entry, "functions": fns, "defs": defs, "kind": kind,
                   "inputs": ["n", "p", "j", "k", "name", "flno", "glno", "cno", "gi"], "native": False,
                   "cls": "B", "bound": bound, "cbmc": TB, "timeout": 600,
                   "assumed": ["file names modelled as opaque handles: fnameEqual == handle equality, fnameCopy == identity",
                               "allocator stub (stoResize == realloc)"]})
    # ---- message grouping and sorting (comsg.c) ----
    for nm, defs, kind in (("comsg.comsgReportFile.grouping_and_order", [], "obligation"),
                           ("canary.comsg.comsgReportFile", ["-DCANARY_comsg"], "canary")):
        js.append({"name": nm, "src": "comsg_h.c", "entry": "h_comsgReportFile", "defs": defs, "kind": kind,
                   "functions": ["comsgReportFile", "comsgCmpPtr", "lisort", "sposCmp", "sposGlobalLine"],
                   "splice": {"comsg.c": {"_rename_def": {"comsgReportLine": "comsgReportLine__real"}}},
                   "inputs": ["n", "sort", "p0", "p1", "p2", "gi"], "native": False, "cls": "B",
                   "bound": "<= 3 messages, positions on lines below 2^31", "link": ["srcpos.c", "util.c:-Dbug=util_c_bug"],
                   "checks": ["--no-standard-checks", "--no-malloc-may-fail"],
                   "cbmc": ["--object-bits", "12", "--unwind", "6"], "timeout": 600,
                   "assumed": ["comsgReportLine (the printer) is replaced by a recording model; the definition is renamed mechanically on every run"]})
    return js
