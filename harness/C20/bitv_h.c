/* C20 harnesses for bit vectors: the real bitv.c is included verbatim.
 * Classes and vectors are always made by the real constructors bitvClassCreate/bitvNew. */
#include "vharness.h"
#include "axlgen.h"
#include "bitv.h"
#include "c_bitv.h"	/* before the unit: spliced loop invariants use BV_BIT and the ghost index */
#include "bitv.c"
#define V_STUB_BUG_UNREACHABLE
#include "stubs.h"

/* allocator stub (instead of V_STUB_STO): fresh, non-NULL memory of exactly the requested size.
 * Requests of 1..16 whole words get an object of CONSTANT size (a case split over the
 * size), which the verifier handles two orders of magnitude faster than a symbolic-size object and
 * which still traps any access beyond the requested size; other sizes get a symbolic-size object. */
#define V_EXACT(K)  else if (size == (K) * sizeof(BitvWord)) p = malloc((K) * sizeof(BitvWord));
MostAlignedType *stoAlloc(unsigned code, ULong size)
{
	void *p = 0;
#if !defined(NATIVE_REPLAY) && !defined(V_ALLOC_SIMPLE)	/* V_ALLOC_SIMPLE: always one symbolic-size object (cheaper when sizes are tiny) */
	if (size == 0) p = malloc(1);	/* (no loop here: harness loops would need unwinding bounds of their own) */
	V_EXACT(1) V_EXACT(2) V_EXACT(3) V_EXACT(4) V_EXACT(5) V_EXACT(6) V_EXACT(7) V_EXACT(8)
	V_EXACT(9) V_EXACT(10) V_EXACT(11) V_EXACT(12) V_EXACT(13) V_EXACT(14) V_EXACT(15) V_EXACT(16)
#endif
	if (!p) p = malloc(size ? size : 1);
#ifndef NATIVE_REPLAY
	__CPROVER_assume(p != 0);
#endif
	return (MostAlignedType *) p;
}
/* stoFree: no-op that records what was freed (ghost), so that "frees exactly the block it was given" can be stated */
Pointer g_freed_ptr;
int g_nfreed;
void stoFree(Pointer p) { g_freed_ptr = p; g_nfreed++; }

unsigned long g_bv_jx;
unsigned long g_bv_w;

/* ------------------------------------------------------------------ class */
void h_bitvClassCreate(void)
{
	INPUT(int, nbits);
	CONTRACT_PRE(PRE_bitvClassCreate(nbits));
	BitvClass c = bitvClassCreate(nbits);
	CONTRACT_POST("c_bitvClassCreate.postcondition", POST_bitvClassCreate(nbits, c));
	VREACH();
}

void h_bitvNew(void)
{
	INPUT(int, nbits);
	ASSUME(nbits >= 0);
	BitvClass c = bitvClassCreate(nbits);
	Bitv r = bitvNew(c);
	CHECK("bitvNew: non-null", r != 0);
	VREACH();
}

/* ------------------------------------------------------- point operations
 * all lengths 0..INT_MAX, all positions; the vector is a symbolic-size object whose
 * contents are unconstrained; the two words that matter are also harness inputs so a
 * counterexample can be replayed natively. */
#define POINT_SETUP \
	INPUT(int, nbits); INPUT(int, ix); INPUT(unsigned long, jx); INPUT(unsigned long, w); \
	INPUT(BitvWord, w_ix); INPUT(BitvWord, w_jx); INPUT(BitvWord, w_w); \
	ASSUME(nbits >= 0); \
	BitvClass c = bitvClassCreate(nbits); \
	Bitv r = bitvNew(c); \
	ASSUME(ix >= 0 && ix < nbits); \
	ASSUME(jx < c->nwords * 64UL); ASSUME(w < c->nwords); \
	r[w] = w_w; r[jx / 64] = w_jx; r[ix / 64] = w_ix; \
	g_bv_jx = jx; g_bv_w = w; \
	BitvWord oldj = BV_BIT(r, jx), oldw = r[w]; \
	CONTRACT_PRE(PRE_bitvPoint(c, ix))

void h_bitvTest(void)
{
	POINT_SETUP;
	int res = bitvTest(c, r, ix);
	CONTRACT_POST("c_bitvTest.postcondition", POST_bitvTest(r, ix, res));
	CHECK("bitvTest: result is 0 or 1", res == 0 || res == 1);
	CHECK("bitvTest: vector unchanged (ghost bit)", BV_BIT(r, jx) == oldj && r[w] == oldw);
	VREACH();
}

void h_bitvSet(void)
{
	POINT_SETUP;
	bitvSet(c, r, ix);
	CONTRACT_POST("c_bitvSet.postcondition", POST_bitvSet(r, ix, jx, oldj, w, oldw));
	CHECK("bitvSet: ix is a member afterwards", bitvTest(c, r, ix) == 1);
	CHECK("bitvSet: every other bit unchanged (ghost bit)", jx == (unsigned long) ix || BV_BIT(r, jx) == oldj);
	CHECK("bitvSet: every other word unchanged (ghost word)", w == (unsigned long) ix / 64 || r[w] == oldw);
	VREACH();
}

void h_bitvClear(void)
{
	POINT_SETUP;
	bitvClear(c, r, ix);
	CONTRACT_POST("c_bitvClear.postcondition", POST_bitvClear(r, ix, jx, oldj, w, oldw));
	CHECK("bitvClear: ix is not a member afterwards", bitvTest(c, r, ix) == 0);
	CHECK("bitvClear: every other bit unchanged (ghost bit)", jx == (unsigned long) ix || BV_BIT(r, jx) == oldj);
	CHECK("bitvClear: every other word unchanged (ghost word)", w == (unsigned long) ix / 64 || r[w] == oldw);
	VREACH();
}

/* ------------------------------------------------------------ index loops
 * all lengths 0..INT_MAX (loop contracts), vector contents unconstrained, ghost bit jx. */
#define LOOP_SETUP(maxbits) \
	INPUT(int, nbits); INPUT(unsigned long, jx); INPUT(BitvWord, w_jx); \
	ASSUME(nbits >= 0 && nbits <= (maxbits)); \
	BitvClass c = bitvClassCreate(nbits); \
	Bitv r = bitvNew(c); \
	if (jx < c->nwords * 64UL) r[jx / 64] = w_jx; \
	g_bv_jx = jx

void h_bitvMax(void)
{
	LOOP_SETUP(INT_MAX);
	int res = bitvMax(c, r);
	CONTRACT_POST("c_bitvMax.postcondition", POST_bitvMax(c, r, jx, res));
	CHECK("bitvMax: the result is a member, or -1", res == -1 || (res >= 0 && res < nbits && bitvTest(c, r, res)));
	CHECK("bitvMax: no member above the result (ghost bit)", !(jx < (unsigned long) nbits && BV_BIT(r, jx)) || (long) jx <= (long) res);
	VREACH();
}

void h_bitvCount(void)
{
	LOOP_SETUP(INT_MAX);
	int res = bitvCount(c, r);
	CONTRACT_POST("c_bitvCount.postcondition", POST_bitvCountN(r, jx, nbits, res));
	CHECK("bitvCount: within 0..nbits", 0 <= res && res <= nbits);
	CHECK("bitvCount: a set with a member has count >= 1 (ghost bit)", !(jx < (unsigned long) nbits && BV_BIT(r, jx)) || res >= 1);
	CHECK("bitvCount: a set with a non-member has count < nbits (ghost bit)", !(jx < (unsigned long) nbits && !BV_BIT(r, jx)) || res < nbits);
	VREACH();
}

void h_bitvCountTo(void)
{
	LOOP_SETUP(INT_MAX);
	INPUT(int, n);
	ASSUME(n <= nbits);
	CONTRACT_PRE(PRE_bitvCountTo(c, n));
	int res = bitvCountTo(c, r, n);
	CONTRACT_POST("c_bitvCountTo.postcondition", POST_bitvCountN(r, jx, n, res));
	CHECK("bitvCountTo: within 0..n", 0 <= res && res <= (n > 0 ? n : 0));
	VREACH();
}

void h_bitvUnique1IndexInRange(void)
{
	LOOP_SETUP(INT_MAX);
	INPUT(int, org); INPUT(int, lim);
	ASSUME(0 <= org && lim <= nbits);
	CONTRACT_PRE(PRE_bitvUnique1(c, org, lim));
	int res = bitvUnique1IndexInRange(c, r, org, lim);
	CONTRACT_POST("c_bitvUnique1IndexInRange.postcondition", POST_bitvUnique1(r, org, lim, jx, res));
	CHECK("bitvUnique1IndexInRange: a result other than -1 is a member in range", res == -1 || (org <= res && res < lim && bitvTest(c, r, res)));
	CHECK("bitvUnique1IndexInRange: and no other bit in range is a member (ghost bit)",
	      res == -1 || !((unsigned long) org <= jx && jx < (unsigned long) lim && jx != (unsigned long) res) || !BV_BIT(r, jx));
	VREACH();
}

void h_bitvToInt(void)
{
	LOOP_SETUP(31);
	CONTRACT_PRE(PRE_bitvInt(c));
	int res = bitvToInt(c, r);
	CONTRACT_POST("c_bitvToInt.postcondition", POST_bitvToInt(c, r, jx, res));
	CHECK("bitvToInt: bit jx of the int is membership of jx", !(jx < 32) || ((((unsigned) res) >> jx) & 1U) == (jx < (unsigned long) nbits ? BV_BIT(r, jx) : 0UL));
	VREACH();
}

void h_bitvFromInt(void)
{
	INPUT(int, nbits); INPUT(unsigned long, jx); INPUT(int, n);
	ASSUME(nbits >= 0 && nbits <= 31);
	BitvClass c = bitvClassCreate(nbits);
	g_bv_jx = jx;
	CONTRACT_PRE(PRE_bitvInt(c));
	Bitv res = bitvFromInt(c, n);
	CONTRACT_POST("c_bitvFromInt.postcondition", POST_bitvFromInt(c, n, jx, res));
	CHECK("bitvFromInt: membership of jx is bit jx of the int", !(jx < (unsigned long) nbits) || bitvTest(c, res, (int) jx) == (int) ((((unsigned) n) >> jx) & 1U));
	VREACH();
}

/* --------------------------------------------------- whole-vector operations
 * BOUNDED: nwords <= BV_MAXW (the loops step pointers and are unwound).  alias selects how
 * r, a, b overlap: 0 all distinct, 1 r==a, 2 r==b, 3 r==a==b, 4 a==b (r distinct).
 * Each vector is the LAST nwords words of a BV_MAXW-word array, so that any read or write past its
 * end leaves the object and is trapped by the pointer checks; the contract's assigns clause (exactly
 * the nwords words of r, enforced by --dfcc) and a ghost word wg before the start (checked
 * unchanged) bound the writes on the other side. */
#ifndef BV_MAXW
#define BV_MAXW 8
#endif
#ifdef ALIAS
#define ALIAS_DECL  const int alias = ALIAS
#else
#define ALIAS_DECL  INPUT(int, alias); ASSUME(0 <= alias && alias <= 4)
#endif
#define VEC_AT_END(arr) ((arr) + (BV_MAXW - c->nwords))
#define VEC_DECL    Bitv r = VEC_AT_END(rv); \
	Bitv a = (alias == 1 || alias == 3) ? r : VEC_AT_END(av); \
	Bitv b = (alias == 2 || alias == 3) ? r : (alias == 4 ? a : VEC_AT_END(bv)); \
	INPUT(unsigned long, wg); ASSUME(wg < BV_MAXW); \
	const BitvWord rg0 = rv[wg]
#define GUARD_CHECK CHECK("no word before the start of r is written (ghost word)", wg >= BV_MAXW - c->nwords || rv[wg] == rg0)

#define WORD_SETUP \
	INPUT(int, nbits); INPUT(unsigned long, jx); INPUT(unsigned long, w); \
	INPUT_ARR(BitvWord, rv, BV_MAXW); INPUT_ARR(BitvWord, av, BV_MAXW); INPUT_ARR(BitvWord, bv, BV_MAXW); \
	ALIAS_DECL; \
	ASSUME(nbits > 0 && nbits <= 64 * BV_MAXW); \
	BitvClass c = bitvClassCreate(nbits); \
	unsigned long k; \
	VEC_DECL; \
	ASSUME(jx < (unsigned long) nbits); ASSUME(w < c->nwords); \
	g_bv_jx = jx; g_bv_w = w; \
	BitvWord aw = a[w], bw = b[w], aj = BV_BIT(a, jx), bj = BV_BIT(b, jx), rw0 = r[w]; \
	CONTRACT_PRE(PRE_bitvWords(c))

#define WORD_FRAME_CHECKS \
	CHECK("operand a is unchanged unless it is the result vector", a == r || a[w] == aw); \
	CHECK("operand b is unchanged unless it is the result vector", b == r || b[w] == bw); \
	GUARD_CHECK

void h_bitvAnd(void)
{
	WORD_SETUP;
	bitvAnd(c, r, a, b);
	CONTRACT_POST("c_bitvAnd.postcondition", POST_bitvAnd(r, jx, w, aj, bj, aw, bw));
	CHECK("bitvAnd: jx in r  <=>  jx in a and jx in b", bitvTest(c, r, (int) jx) == (int) (aj & bj));
	CHECK("bitvAnd: word-wise, padding included", r[w] == (aw & bw));
	WORD_FRAME_CHECKS;
	VREACH();
}

void h_bitvOr(void)
{
	WORD_SETUP;
	bitvOr(c, r, a, b);
	CONTRACT_POST("c_bitvOr.postcondition", POST_bitvOr(r, jx, w, aj, bj, aw, bw));
	CHECK("bitvOr: jx in r  <=>  jx in a or jx in b", bitvTest(c, r, (int) jx) == (int) (aj | bj));
	CHECK("bitvOr: word-wise, padding included", r[w] == (aw | bw));
	WORD_FRAME_CHECKS;
	VREACH();
}

void h_bitvMinus(void)
{
	WORD_SETUP;
	bitvMinus(c, r, a, b);
	CONTRACT_POST("c_bitvMinus.postcondition", POST_bitvMinus(r, jx, w, aj, bj, aw, bw));
	CHECK("bitvMinus: jx in r  <=>  jx in a and not jx in b", bitvTest(c, r, (int) jx) == (int) (aj & (bj ^ 1UL)));
	CHECK("bitvMinus: word-wise, padding included", r[w] == (aw & ~bw));
	WORD_FRAME_CHECKS;
	VREACH();
}

void h_bitvNot(void)
{
	WORD_SETUP;
	bitvNot(c, r, a);
	CONTRACT_POST("c_bitvNot.postcondition", POST_bitvNot(r, jx, w, aj, aw));
	CHECK("bitvNot: jx in r  <=>  not jx in a", bitvTest(c, r, (int) jx) == (int) (aj ^ 1UL));
	CHECK("bitvNot: word-wise", r[w] == ~aw);
	WORD_FRAME_CHECKS;
	VREACH();
}

void h_bitvCopy(void)
{
	WORD_SETUP;
	bitvCopy(c, r, a);
	CONTRACT_POST("c_bitvCopy.postcondition", POST_bitvCopy(r, jx, w, aj, aw));
	CHECK("bitvCopy: jx in r  <=>  jx in a", bitvTest(c, r, (int) jx) == (int) aj);
	CHECK("bitvCopy: word-wise", r[w] == aw);
	CHECK("bitvCopy: the copy is equal to the original", bitvEqual(c, r, a));
	WORD_FRAME_CHECKS;
	VREACH();
}

void h_bitvSetAll(void)
{
	WORD_SETUP;
	bitvSetAll(c, r);
	CONTRACT_POST("c_bitvSetAll.postcondition", POST_bitvSetAll(r, jx));
	CHECK("bitvSetAll: every jx < nbits is a member", bitvTest(c, r, (int) jx) == 1);
	WORD_FRAME_CHECKS;
	VREACH();
}

void h_bitvClearAll(void)
{
	WORD_SETUP;
	bitvClearAll(c, r);
	CONTRACT_POST("c_bitvClearAll.postcondition", POST_bitvClearAll(r, jx, w));
	CHECK("bitvClearAll: no jx < nbits is a member", bitvTest(c, r, (int) jx) == 0);
	WORD_FRAME_CHECKS;
	VREACH();
}

void h_bitvEqual(void)
{
	WORD_SETUP;
	int model = 1;
	Bool res = bitvEqual(c, a, b);
	CONTRACT_POST("c_bitvEqual.postcondition", POST_bitvEqual(c, a, b, jx, res));
	/* model: equal as sets <=> no word differs inside the valid (index < nbits) bits */
	for (k = 0; k < c->nwords; k++)
		if ((a[k] ^ b[k]) & BV_VALID_MASK(nbits, k)) model = 0;
	CHECK("bitvEqual: true exactly when a and b have the same members (padding ignored)", (res != 0) == (model != 0));
	CHECK("bitvEqual: equal sets agree at every bit (ghost bit)", !res || BV_BIT(a, jx) == BV_BIT(b, jx));
	CHECK("bitvEqual: operands unchanged", a[w] == aw && b[w] == bw && r[w] == rw0);
	VREACH();
}

/* the algebra as the data-flow solver uses it (dflow.c: out = (in | gen) - kill computed in place):
 * checked through the real functions end to end at a ghost bit */
void h_bitv_dflow_step(void)
{
	WORD_SETUP;
	INPUT_ARR(BitvWord, kv, BV_MAXW);
	Bitv kill = VEC_AT_END(kv);
	BitvWord kj = BV_BIT(kill, jx);
	bitvOr(c, r, a, b);		/* out = in | gen            */
	bitvMinus(c, r, r, kill);	/* out = out - kill, in place */
	CHECK("dflow step: jx in out <=> (jx in in or jx in gen) and not jx in kill", bitvTest(c, r, (int) jx) == (int) ((aj | bj) & (kj ^ 1UL)));
	VREACH();
}

/* bitvResize (of_loops.c grows every block set by one bit when a pre-header is added): the old members
 * are kept, and when a new vector is made the OLD BLOCK ITSELF is handed back to the allocator. */
void h_bitvResize(void)
{
	INPUT(int, nbits); INPUT(int, newbits); INPUT(unsigned long, jx);
	INPUT_ARR(BitvWord, bv, BV_MAXW);
	ASSUME(nbits >= 0 && nbits <= 64 * BV_MAXW && newbits >= 0 && newbits <= 64 * BV_MAXW);
	BitvClass oldc = bitvClassCreate(nbits), newc = bitvClassCreate(newbits);
	Bitv b = bv + (BV_MAXW - oldc->nwords);		/* last nwords words: overruns are trapped */
	ASSUME(jx < (unsigned long) nbits && jx < (unsigned long) newbits);
	BitvWord oldj = BV_BIT(b, jx);
	g_nfreed = 0; g_freed_ptr = 0;
	Bitv res = bitvResize(newc, oldc, b);
	CHECK("bitvResize: members below both sizes are kept (ghost bit)", BV_BIT(res, jx) == oldj);
	CHECK("bitvResize: same vector returned when no more words are needed", newc->nwords > oldc->nwords || (res == b && g_nfreed == 0));
	CHECK("bitvResize: a new vector is returned when more words are needed", newc->nwords <= oldc->nwords || res != b);
	CHECK("bitvResize: when a new vector is made, exactly the old block is freed",
	      newc->nwords <= oldc->nwords || (g_nfreed == 1 && g_freed_ptr == (Pointer) b));
	VREACH();
}

/* empty class: nothing may be read or written (memory-safety obligations only) */
void h_bitv_empty(void)
{
	BitvClass c = bitvClassCreate(0);
	Bitv r = bitvNew(c), a = bitvNew(c), b = bitvNew(c);
	bitvSetAll(c, r); bitvClearAll(c, r); bitvCopy(c, r, a); bitvNot(c, r, a);
	bitvAnd(c, r, a, b); bitvOr(c, r, a, b); bitvMinus(c, r, a, b);
	CHECK("empty class: all vectors are equal", bitvEqual(c, a, b));
	CHECK("empty class: count 0, max -1", bitvCount(c, r) == 0 && bitvMax(c, r) == -1);
	VREACH();
}

/* -------------------------------------------- exact models, BOUNDED (nbits <= 64*BV_MODW)
 * what one ghost index cannot say: the count is the popcount; -1 from Unique1 means 0 or >= 2 members. */
#ifndef BV_MODW
#define BV_MODW 2
#endif
static int m_popcount_below(Bitv r, int nwords, int n)	/* members with index < n */
{
	int k, t = 0;
	for (k = 0; k < nwords; k++) t += __builtin_popcountl(r[k] & BV_VALID_MASK(n > 0 ? n : 0, k));
	return t;
}

#ifndef BV_MODBITS
#define BV_MODBITS (64 * BV_MODW)
#endif
#define MODEL_SETUP \
	INPUT(int, nbits); INPUT_ARR(BitvWord, rv, BV_MODW); \
	ASSUME(nbits >= 0 && nbits <= BV_MODBITS && nbits <= 64 * BV_MODW); \
	BitvClass c = bitvClassCreate(nbits); \
	Bitv r = rv + (BV_MODW - c->nwords);	/* last nwords words of the array: overruns are trapped */ \
	int nw = (int) c->nwords

void h_bitv_model_count(void)
{
	MODEL_SETUP;
	INPUT(int, n);
	ASSUME(n <= nbits);
	int cnt = bitvCount(c, r), cto = bitvCountTo(c, r, n);
	CHECK("bitvCount == number of members", cnt == m_popcount_below(r, nw, nbits));
	CHECK("bitvCountTo(n) == number of members below n", cto == m_popcount_below(r, nw, n));
	CHECK("bitvCountTo(n) is the rank of member n in the enumeration of members (of_jflow.c clone array index)",
	      !(n >= 0 && n < nbits && bitvTest(c, r, n)) || cto < cnt);
	VREACH();
}

void h_bitv_model_max(void)
{
	MODEL_SETUP;
	int cnt = bitvCount(c, r), mx = bitvMax(c, r);
	CHECK("bitvMax == -1 exactly for the empty set", (mx == -1) == (cnt == 0));
	CHECK("bitvCountTo(bitvMax) == bitvCount - 1", mx == -1 || bitvCountTo(c, r, mx) == cnt - 1);
	VREACH();
}

/* bitvMax/bitvCount at the word boundaries, BOUNDED and independent of the loop-contract splice: if bitv.c's loops are
 * rewritten (e.g. as a word scan, as the FIXME in bitvMax suggests) the spliced jobs go undecided, this one still decides.
 * Whole words of arbitrary bits; nbits (a constant per job) around 64 and 128: a full last word, one bit short, one over. */
#ifndef BV_NB
#define BV_NB 64
#endif
void h_bitv_model_words(void)
{
	INPUT_ARR(BitvWord, rv, 3); INPUT(unsigned long, jx);
	int nbits = BV_NB;
	BitvClass c = bitvClassCreate(nbits);
	Bitv r = rv + (3 - c->nwords);
	int mx = bitvMax(c, r);
	CHECK("bitvMax: the result is a member, or -1", mx == -1 || (mx >= 0 && mx < nbits && BV_BIT(r, (unsigned long) mx)));
	CHECK("bitvMax: no member above the result (ghost bit)", !(jx < (unsigned long) nbits && BV_BIT(r, jx)) || (long) jx <= (long) mx);
	VREACH();
}

void h_bitv_model_unique(void)
{
	MODEL_SETUP;
	INPUT(int, org); INPUT(int, lim);
	ASSUME(0 <= org && lim <= nbits);
	int u = bitvUnique1IndexInRange(c, r, org, lim);
	int inrange = org < lim ? m_popcount_below(r, nw, lim) - m_popcount_below(r, nw, org) : 0;
	CHECK("bitvUnique1IndexInRange == -1 exactly when the range does not hold exactly one member", (u == -1) == (inrange != 1));
	CHECK("bitvUnique1IndexInRange: otherwise that member", u == -1 || (org <= u && u < lim && bitvTest(c, r, u)));
	VREACH();
}

/* round trip through the real loops: the bound 31 is the code's own constant (assert(nbits < 8*sizeof(int))),
 * so unwinding 32 times with unwinding assertions is complete */
void h_bitvInt_roundtrip(void)
{
	INPUT(int, nbits); INPUT(int, n);
	ASSUME(nbits >= 0 && nbits <= 31);
	BitvClass c = bitvClassCreate(nbits);
	Bitv res = bitvFromInt(c, n);
	CHECK("bitvToInt(bitvFromInt(n)) == n on the low nbits bits", (unsigned) bitvToInt(c, res) == (((unsigned) n) & ((1U << nbits) - 1U)));
	VREACH();
}

#ifdef NATIVE_REPLAY
V_NATIVE_MAIN(ENTRY)
#endif
