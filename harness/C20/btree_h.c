/* C20 harnesses for the B-tree (the storage manager's size -> free-list map): the real btree.c is included
 * verbatim (split/unsplit/rotate and btreeDelete0 are file-local); nodes come from a harness BTreeAllocFun.
 *
 * Model: an ordered multimap = the multiset of (key, entry) pairs reached from the root.
 * Induction steps over an ARBITRARY well-formed tree of height BT_H with minimum degree t = BT_T (shape
 * fully allocated, key counts / keys / entries symbolic, constrained only by WF):
 *      insert : WF', pairs' = pairs + {(k,e)}
 *      delete : (k present, as at the call sites) WF', pairs' = pairs - {(k,e')}, e' returned, (k,e') was in
 *      search : EQ finds k iff present; GE finds the least key >= k; Min/Max the extremes
 *      check  : WF ==> the unit's own btreeCheck returns 0   (so btreeCheck holds after every step)
 * and the base case btreeNewX.  WF is btree.h's list of B-tree properties (1a, 1b, 2, 3) plus "all leaves at
 * the same depth", evaluated by a harness walker with a concrete height (the unit's recursive btreeCheck0 walks
 * by pointer and costs the verifier (2t+1)^depth paths per call, so it is related to WF once, in its own job).  BOUNDED by BT_T and BT_H (height 1: a leaf root; 2: root over leaves; 3: root
 * over internal nodes over leaves).  Universals over the tree's pairs use a ghost pair (gk, ge). */
#include "vharness.h"
#include "btree.c"
#define V_STUB_BUG_UNREACHABLE
#define V_STUB_STO
#include "stubs.h"

#ifndef BT_T
#define BT_T 2
#endif
#ifndef BT_H
#define BT_H 2
#endif
#define BT_MAXK   (2 * BT_T - 1)
#define BT_GUARD  ((BTreeKey) 0x6A6A6A6A6A6A6A6AUL)
#if BT_H == 1
#define BT_POOL 1
#elif BT_H == 2
#define BT_POOL (1 + 2 * BT_T)
#else
#define BT_POOL (1 + 2 * BT_T + 4 * BT_T * BT_T)
#endif
#define BT_MAXNODES (BT_POOL + BT_H + 2)

/* node allocator: one whole typed struct btree (NARY = 10 parts >= 2t); part[2t] -- the first part past
 * what the unit asked for -- carries a guard that must survive every operation */
static BTree g_nodes[BT_MAXNODES];
static int g_nnodes, g_nfreed;
static BTree g_lastfreed;
static BTree h_alloc(ULong nbytes)
{
	struct btree *b = malloc(sizeof(struct btree));
#ifndef NATIVE_REPLAY
	__CPROVER_assume(b != 0);
	__CPROVER_assert(nbytes == btreeNodeSize(BT_T) && 2 * BT_T < NARY, "CHECK node allocator: the unit asks for a node of 2t parts");
#endif
	{ int i; for (i = 0; i < 2 * BT_T; i++) b->part[i].branch = 0; }	/* keys/entries stay arbitrary; a branch the unit
										   has not set is NULL, so following it is trapped */
	b->part[2 * BT_T].key = BT_GUARD; b->part[2 * BT_T].entry = (BTreeElt) BT_GUARD; b->part[2 * BT_T].branch = (BTree) BT_GUARD;
	if (g_nnodes < BT_MAXNODES) g_nodes[g_nnodes] = b;
	g_nnodes++;
	return b;
}
static void h_free(BTree b) { g_lastfreed = b; g_nfreed++; }
static int bt_guards_intact(void)
{
	int i, ok = 1;
	for (i = 0; i < BT_MAXNODES; i++) if (i < g_nnodes) {
		struct btreePart *p = &g_nodes[i]->part[2 * BT_T];
		if (p->key != BT_GUARD || p->entry != (BTreeElt) BT_GUARD || p->branch != (BTree) BT_GUARD) ok = 0;
	}
	return ok && g_nnodes <= BT_MAXNODES;
}

/* symbolic material for the arbitrary tree, consumed in (concrete) allocation order */
static BTreeKey		g_keys[BT_POOL * BT_MAXK];
static unsigned long	g_ents[BT_POOL * BT_MAXK];
static unsigned char	g_cnts[BT_POOL];
static int		g_cur;

#ifdef BT_SHAPE
/* -DBT_SHAPE=r,c0,..,cr[,...]: the key count of every node is a CONSTANT of the job (preorder: a node, then its
 * nKeys+1 subtrees); keys and entries stay symbolic.  A B-tree operation's structural decisions (split, merge,
 * rotate, new root) depend on key counts only, so with the counts fixed the verifier walks concrete pointers and the
 * union of all shapes of a height is that height's whole domain. */
static const unsigned char bt_shape[] = { BT_SHAPE };
#define BT_NSHAPE ((int) (sizeof bt_shape / sizeof bt_shape[0]))
#endif
static BTree bt_arbitrary(int h, int isroot)
{
	int i, me = g_cur++;
	BTree x = h_alloc(btreeNodeSize(BT_T));
	x->t = BT_T; x->isLeaf = (h == 1);
#ifdef BT_SHAPE
	x->nKeys = me < BT_NSHAPE ? bt_shape[me] : 0;
#else
	ASSUME(g_cnts[me] <= BT_MAXK);
	x->nKeys = g_cnts[me];
#endif
	for (i = 0; i < BT_MAXK; i++) { x->part[i].key = g_keys[me * BT_MAXK + i]; x->part[i].entry = (BTreeElt) g_ents[me * BT_MAXK + i]; }
#ifdef BT_SHAPE
	if (h > 1) for (i = 0; i <= BT_MAXK; i++) if (i <= x->nKeys) x->part[i].branch = bt_arbitrary(h - 1, 0);
#else
	if (h > 1) for (i = 0; i <= BT_MAXK; i++) x->part[i].branch = bt_arbitrary(h - 1, 0);
#endif
	return x;
}

/* number of pairs in the tree matching (k, e); bykey: match on the key alone; all: count every pair */
static int bt_count(BTree x, int h, int mode, BTreeKey k, BTreeElt e)
{
	int i, c = 0;
	for (i = 0; i < BT_MAXK; i++) if (i < x->nKeys) {
		if (mode == 0 || (x->part[i].key == k && (mode == 1 || x->part[i].entry == e))) c++;
	}
	if (h > 1 && !x->isLeaf)
		for (i = 0; i <= BT_MAXK; i++) if (i <= x->nKeys) c += bt_count(x->part[i].branch, h - 1, mode, k, e);
	return c;
}
/* btree.h properties 1a 1b 2 3, all leaves at depth h */
static int bt_wf(BTree x, int h, int isroot, int haslo, BTreeKey lo, int hashi, BTreeKey hi)
{
	int i, ok = 1, n = x->nKeys;
	if (x->t != BT_T) return 0;
	if ((x->isLeaf != 0) != (h == 1)) return 0;
	if (n > BT_MAXK) return 0;
	if (!isroot && n < BT_T - 1) return 0;
	if (h > 1 && n < 1) return 0;
	for (i = 0; i < BT_MAXK; i++) if (i < n) {
		if (i > 0 && x->part[i - 1].key > x->part[i].key) ok = 0;
		if (haslo && lo > x->part[i].key) ok = 0;
		if (hashi && x->part[i].key > hi) ok = 0;
	}
	if (h > 1)
		for (i = 0; i <= BT_MAXK; i++) if (i <= n)
			if (!bt_wf(x->part[i].branch, h - 1, 0, i > 0 || haslo, i > 0 ? x->part[i - 1].key : lo,
				   i < n || hashi, i < n ? x->part[i].key : hi)) ok = 0;
	return ok;
}
#define WF(r, h)              bt_wf(r, h, 1, 0, 0, 0, 0)
#define COUNT_ALL(r, h)       bt_count(r, h, 0, 0, 0)
#define COUNT_KEY(r, h, k)    bt_count(r, h, 1, k, 0)
#define COUNT_PAIR(r, h, k, e) bt_count(r, h, 2, k, (BTreeElt) (e))

#define ARBITRARY_TREE \
	INPUT_ARR(BTreeKey, keys, BT_POOL * BT_MAXK); INPUT_ARR(unsigned long, ents, BT_POOL * BT_MAXK); \
	INPUT_ARR(unsigned char, cnts, BT_POOL); INPUT(BTreeKey, gk); INPUT(unsigned long, ge); \
	int q_; \
	for (q_ = 0; q_ < BT_POOL * BT_MAXK; q_++) { g_keys[q_] = keys[q_]; g_ents[q_] = ents[q_]; } \
	for (q_ = 0; q_ < BT_POOL; q_++) g_cnts[q_] = cnts[q_]; \
	g_cur = 0; \
	BTree root = bt_arbitrary(BT_H, 1); \
	ASSUME(WF(root, BT_H)); \
	BTree root0 = root; \
	int n0 = COUNT_ALL(root, BT_H), gcount0 = COUNT_PAIR(root, BT_H, gk, ge)

void h_bt_new(void)
{
	BTree r = btreeNewX(BT_T, h_alloc);
	int ix;
	CHECK("btreeNewX: an empty leaf, well formed, passes btreeCheck", r->isLeaf && r->nKeys == 0 && WF(r, 1) && btreeCheck(r) == 0);
	CHECK("btreeNewX: nothing is found in it", btreeSearchEQ(r, 5, &ix) == 0 && btreeSearchGE(r, 0, &ix) == 0);
	VREACH();
}

void h_bt_insert(void)
{
	ARBITRARY_TREE;
	INPUT(BTreeKey, k); INPUT(unsigned long, e);
	btreeInsertX(&root, k, (BTreeElt) e, h_alloc);
	CHECK("btreeInsertX: still a well-formed B-tree (height grows only by a new root)", root == root0 ? WF(root, BT_H) : WF(root, BT_H + 1));
	CHECK("btreeInsertX: one more pair", COUNT_ALL(root, BT_H + 1) == n0 + 1);
#ifndef CANARY_bt_insert
	CHECK("btreeInsertX: pairs' = pairs + {(k,e)} (ghost pair)",
	      COUNT_PAIR(root, BT_H + 1, gk, ge) == gcount0 + ((gk == k && ge == e) ? 1 : 0));
#else	/* canary: a map, not a multimap (an equal key is replaced) */
	CHECK("btreeInsertX canary", COUNT_KEY(root, BT_H + 1, k) == 1);
#endif
	CHECK("btreeInsertX: no write past a node", bt_guards_intact());
	VREACH();
}

#ifdef BT_MODEL_DELETE0
/* MODULAR over the recursion of btreeDelete0 (definition renamed on every run to btreeDelete0__real, tools/vlib.py
 * "_rename_def"): the harness calls the real body on the root of a height-2 tree; the calls it makes to btreeDelete0
 * land on LEAVES and bind to this model of the contract the step relies on:
 *   precondition  (obligation at every re-entry)  the node is a leaf of this tree with MORE than t-1 keys (so that it
 *                 stays legal after the removal -- "most of the work is to ensure that t-1 keys remain") and holds k;
 *   postcondition one pair with key k is removed from that leaf, its entry stored through pe; nothing else changes.
 * The real leaf case (same function, x->isLeaf) is checked on the real body in btree.delete.h1. */
static int g_reentries;
local void btreeDelete0(BTree x, BTreeKey k, BTreeElt *pe, BTreeFreeFun btfree)
{
	int i, j, n = x->nKeys, found = 0;
	(void) btfree;
	g_reentries++;
	CHECK("re-entry of btreeDelete0: on a leaf (height-2 tree) that has more than t-1 keys", x->isLeaf && n > BT_T - 1 && n <= BT_MAXK);
	for (i = 0; i < BT_MAXK; i++) if (!found && i < n && x->part[i].key == k) {
		found = 1;
		if (pe) *pe = x->part[i].entry;
		for (j = i + 1; j < BT_MAXK; j++) if (j < n) x->part[j - 1] = x->part[j];
	}
	CHECK("re-entry of btreeDelete0: the key is in that leaf", found);
	if (found) x->nKeys = n - 1;
}
#define btreeDelete0_UNDER_TEST btreeDelete0__real
/* btreeDeleteX's body, with the real step function called directly */
static void bt_deleteX(BTree *pr, BTreeKey k, BTreeElt *pe, BTreeFreeFun btfree)
{
	btreeDelete0__real(*pr, k, pe, btfree);
	if ((*pr)->nKeys == 0 && !(*pr)->isLeaf) { BTree r = (*pr)->part[0].branch; btfree(*pr); *pr = r; }
}
#endif

void h_bt_delete(void)
{
	ARBITRARY_TREE;
	INPUT(BTreeKey, k);
	BTreeElt out = 0;
	int kcount0 = COUNT_KEY(root, BT_H, k);
	ASSUME(kcount0 >= 1);		/* call sites (store.c) delete keys they have just found */
#ifdef BT_MODEL_DELETE0
	bt_deleteX(&root, k, &out, h_free);	/* btreeDeleteX itself (3 lines) is on the real code in btree.delete.h1 */
#else
	btreeDeleteX(&root, k, &out, h_free);
#endif
	CHECK("btreeDeleteX: still a well-formed B-tree (height shrinks only by dropping the root)", root == root0 ? WF(root, BT_H) : (BT_H > 1 && WF(root, BT_H - 1)));
	CHECK("btreeDeleteX: one pair fewer", COUNT_ALL(root, BT_H) == n0 - 1);
#ifndef CANARY_bt_delete
	CHECK("btreeDeleteX: exactly one pair with that key is gone", COUNT_KEY(root, BT_H, k) == kcount0 - 1);
#else	/* canary: every pair with that key is gone */
	CHECK("btreeDeleteX canary", COUNT_KEY(root, BT_H, k) == 0);
#endif
	CHECK("btreeDeleteX: pairs' = pairs - {(k, returned entry)} (ghost pair)",
	      COUNT_PAIR(root, BT_H, gk, ge) == gcount0 - ((gk == k && (BTreeElt) ge == out) ? 1 : 0));
	CHECK("btreeDeleteX: the returned entry was stored under k (ghost pair)", !(gk == k && (BTreeElt) ge == out) || gcount0 >= 1);
	CHECK("btreeDeleteX: no write past a node", bt_guards_intact());
	VREACH();
}

void h_bt_search(void)
{
	ARBITRARY_TREE;
	INPUT(BTreeKey, k);
	int ix = -1, gpresent = COUNT_KEY(root, BT_H, gk) >= 1, kpresent = COUNT_KEY(root, BT_H, k) >= 1;
	BTree b;
	b = btreeSearchEQ(root, k, &ix);
	CHECK("btreeSearchEQ: finds k exactly when present", (b != 0) == (kpresent != 0));
	CHECK("btreeSearchEQ: and points at it", b == 0 || (0 <= ix && ix < b->nKeys && btreeKey(b, ix) == k));
	b = btreeSearchGE(root, k, &ix);
#ifndef CANARY_bt_search
	CHECK("btreeSearchGE: found key is >= k", b == 0 || (0 <= ix && ix < b->nKeys && btreeKey(b, ix) >= k));
#else	/* canary: strictly greater */
	CHECK("btreeSearchGE canary", b == 0 || (0 <= ix && ix < b->nKeys && btreeKey(b, ix) > k));
#endif
	CHECK("btreeSearchGE: no key of the tree lies in [k, found) (ghost key)", b == 0 || !gpresent || gk < k || btreeKey(b, ix) <= gk);
	CHECK("btreeSearchGE: nothing found only if no key is >= k (ghost key)", b != 0 || !gpresent || gk < k);
	if (n0 > 0) {
		b = btreeSearchMin(root, &ix);
		CHECK("btreeSearchMin: a least key (ghost key)", b != 0 && 0 <= ix && ix < b->nKeys && (!gpresent || btreeKey(b, ix) <= gk));
		b = btreeSearchMax(root, &ix);
		CHECK("btreeSearchMax: a greatest key (ghost key)", b != 0 && 0 <= ix && ix < b->nKeys && (!gpresent || btreeKey(b, ix) >= gk));
	}
	CHECK("searches do not change the tree", WF(root, BT_H) && COUNT_ALL(root, BT_H) == n0 && COUNT_PAIR(root, BT_H, gk, ge) == gcount0);
	VREACH();
}

/* the unit's own checker accepts every well-formed tree */
void h_bt_check(void)
{
	ARBITRARY_TREE;
	CHECK("WF ==> btreeCheck == 0", btreeCheck(root) == 0);
	VREACH();
}

#ifdef NATIVE_REPLAY
V_NATIVE_MAIN(ENTRY)
#endif
