/* C20 harnesses for the disjunctive normal form (conditional exports): the real dnf.c is included
 * verbatim (the term-level functions are file-local).
 *
 * Property: a DNF built through dnfAtom/dnfNotAtom/dnfAnd/dnfOr/dnfNot/dnfTrue/dnfFalse is logically
 * equivalent to the formula it was built from, and dnfImplies/dnfEqual agree with truth tables.
 * Formulas here are BUILT THROUGH THE PUBLIC CONSTRUCTORS ONLY (so every DNF met is a reachable one):
 *      R = [not] ( [not](L1 op1 L2)  op3  [not](L3 op2 L4) ),   Li = a literal over atoms 1..DN_ATOMS
 * with literals and negations symbolic and the connectives op1..op3 fixed per job (all 8 choices run).
 * The truth value of every node is tracked alongside under a symbolic valuation v (= all 2^n rows). */
#include "vharness.h"
#include "dnf.c"
#define V_STUB_BUG_UNREACHABLE
#include "stubs.h"

/* allocator stub: exactly the requested size (dnf.c uses the struct hack: a term with k literals is
 * allocated with room for exactly k), so that a write past the requested size is trapped */
MostAlignedType *stoAlloc(unsigned code, ULong size)
{
	void *p = malloc(size ? size : 1);
#ifndef NATIVE_REPLAY
	__CPROVER_assume(p != 0);
#endif
	return (MostAlignedType *) p;
}
void stoFree(Pointer p) { (void) p; }

#ifndef DN_ATOMS
#define DN_ATOMS 3
#endif
#ifndef DN_OP1			/* 0 = and, 1 = or */
#define DN_OP1 0
#endif
#ifndef DN_OP2
#define DN_OP2 0
#endif
#ifndef DN_OP3
#define DN_OP3 1
#endif
#ifndef DN_TOPNOT		/* 1: R may be negated once more at the top (much larger intermediate DNFs) */
#define DN_TOPNOT 0
#endif
#ifndef DN_MAXT
#define DN_MAXT 6		/* walk bounds of the evaluator (terms, literals); exceeded = failed obligation */
#endif
#define DN_MAXL 4

static int g_v[DN_ATOMS + 1];	/* the valuation: g_v[a] is the truth value of atom a */

/* truth value of a DNF under g_v; *wf is cleared if the representation invariant is broken:
 * every term non-null, literals over atoms 1..DN_ATOMS, strictly increasing in |atom| */
static int dn_eval(DNF x, int *wf)
{
	int i, j, val = 0, tv, a, prev;
	if (x->argc < 0 || x->argc > DN_MAXT) { *wf = 0; return 0; }
	for (i = 0; i < x->argc; i++) {
		DNF_And t = x->argv[i];
		if (!t || t->argc > DN_MAXL) { *wf = 0; continue; }
		tv = 1; prev = 0;
		for (j = 0; j < (int) t->argc; j++) {
			a = t->argv[j] < 0 ? -t->argv[j] : t->argv[j];
			if (a < 1 || a > DN_ATOMS || a <= prev) { *wf = 0; continue; }
			prev = a;
			if ((t->argv[j] > 0) != (g_v[a] != 0)) tv = 0;
		}
		if (tv) val = 1;
	}
	return val;
}

#define NODE_CHECK(what, d, expect) do { int wf_ = 1; \
	CHECK(what ": same truth value as the formula it was built from", dn_eval(d, &wf_) == ((expect) != 0)); \
	CHECK(what ": representation invariant (terms sorted by atom, no atom twice)", wf_); } while (0)

static DNF dn_lit(int atom, int neg)	{ return neg ? dnfNotAtom(atom) : dnfAtom(atom); }
static DNF dn_op(int op, DNF x, DNF y)	{ return op ? dnfOr(x, y) : dnfAnd(x, y); }
#define OPV(op, p, q)	((op) ? ((p) || (q)) : ((p) && (q)))
#define LITV(a, n)	((n) ? !g_v[a] : g_v[a])

#define FORMULA_INPUTS \
	INPUT_ARR(unsigned char, v, DN_ATOMS + 1); INPUT_ARR(unsigned char, la, 4); INPUT_ARR(unsigned char, ln, 4); \
	INPUT(unsigned char, nA); INPUT(unsigned char, nB); INPUT(unsigned char, nR); \
	int i; \
	for (i = 0; i <= DN_ATOMS; i++) { ASSUME(v[i] <= 1); g_v[i] = v[i]; } \
	for (i = 0; i < 4; i++) ASSUME(la[i] >= 1 && la[i] <= DN_ATOMS && ln[i] <= 1); \
	ASSUME(nA <= 1 && nB <= 1 && nR <= DN_TOPNOT)

/* build R and check every node on the way */
void h_dnf_formula(void)
{
	FORMULA_INPUTS;
	DNF L1 = dn_lit(la[0], ln[0]), L2 = dn_lit(la[1], ln[1]), L3 = dn_lit(la[2], ln[2]), L4 = dn_lit(la[3], ln[3]);
	int l1 = LITV(la[0], ln[0]), l2 = LITV(la[1], ln[1]), l3 = LITV(la[2], ln[2]), l4 = LITV(la[3], ln[3]);
	NODE_CHECK("literal", L1, l1);
	DNF A = dn_op(DN_OP1, L1, L2); int a = OPV(DN_OP1, l1, l2);
	NODE_CHECK("L1 op L2", A, a);
	DNF B = dn_op(DN_OP2, L3, L4); int b = OPV(DN_OP2, l3, l4);
	NODE_CHECK("L3 op L4", B, b);
	if (nA) { A = dnfNot(A); a = !a; NODE_CHECK("not (L1 op L2)", A, a); }
	if (nB) { B = dnfNot(B); b = !b; NODE_CHECK("not (L3 op L4)", B, b); }
	DNF R = dn_op(DN_OP3, A, B); int r = OPV(DN_OP3, a, b);
#ifndef CANARY_dnf_formula
	NODE_CHECK("A op B", R, r);
#else	/* canary: and/or confused at the top */
	NODE_CHECK("canary A op B", R, OPV(!DN_OP3, a, b));
#endif
	if (nR) { R = dnfNot(R); r = !r; NODE_CHECK("not (A op B)", R, r); }
	/* the decision procedures must be sound: a positive answer holds in every row of the truth table */
	CHECK("dnfImplies(A, R) only if A => R", !dnfImplies(A, R) || !a || r);
	CHECK("dnfImplies(R, A) only if R => A", !dnfImplies(R, A) || !r || a);
	CHECK("dnfImplies(A, B) only if A => B", !dnfImplies(A, B) || !a || b);
	CHECK("dnfEqual(A, B) only if A <=> B", !dnfEqual(A, B) || a == b);
	CHECK("dnfEqual(R, B) only if R <=> B", !dnfEqual(R, B) || r == b);
	CHECK("dnfIsTrue(R) only if R holds", !dnfIsTrue(R) || r);
	CHECK("dnfIsFalse(R) only if R does not hold", !dnfIsFalse(R) || !r);
	VREACH();
}

/* constants */
void h_dnf_consts(void)
{
	INPUT_ARR(unsigned char, v, DN_ATOMS + 1); INPUT(unsigned char, at); INPUT(unsigned char, neg);
	int i;
	for (i = 0; i <= DN_ATOMS; i++) { ASSUME(v[i] <= 1); g_v[i] = v[i]; }
	ASSUME(at >= 1 && at <= DN_ATOMS && neg <= 1);
	DNF x = dn_lit(at, neg); int xv = LITV(at, neg);
	NODE_CHECK("dnfTrue", dnfTrue(), 1);
	NODE_CHECK("dnfFalse", dnfFalse(), 0);
	CHECK("dnfIsTrue(dnfTrue()), dnfIsFalse(dnfFalse())", dnfIsTrue(dnfTrue()) && dnfIsFalse(dnfFalse()) && !dnfIsTrue(dnfFalse()) && !dnfIsFalse(dnfTrue()));
	NODE_CHECK("x and true", dnfAnd(x, dnfTrue()), xv);
	NODE_CHECK("x and false", dnfAnd(x, dnfFalse()), 0);
	NODE_CHECK("x or true", dnfOr(x, dnfTrue()), 1);
	NODE_CHECK("x or false", dnfOr(x, dnfFalse()), xv);
	NODE_CHECK("not true", dnfNot(dnfTrue()), 0);
	NODE_CHECK("not false", dnfNot(dnfFalse()), 1);
	NODE_CHECK("x and not x", dnfAnd(x, dnfNot(x)), 0);
	NODE_CHECK("x or not x", dnfOr(x, dnfNot(x)), 1);
	NODE_CHECK("copy", dnfCopy(x), xv);
	CHECK("false implies everything, everything implies true", dnfImplies(dnfFalse(), x) && dnfImplies(x, dnfTrue()));
	CHECK("x implies x, x equals x", dnfImplies(x, x) && dnfEqual(x, dnfCopy(x)));
	VREACH();
}

#ifdef NATIVE_REPLAY
V_NATIVE_MAIN(ENTRY)
#endif
