/* C20 harnesses for the disjunctive normal form (conditional exports): the real dnf.c is included
 * verbatim (the term-level functions are file-local).
 *
 * Property: a DNF built through dnfAtom/dnfNotAtom/dnfAnd/dnfOr/dnfNot/dnfTrue/dnfFalse is logically
 * equivalent to the formula it was built from, and dnfImplies/dnfEqual agree with truth tables.
 *
 * Shape of the check (induction over the construction of a formula):
 *   base : dnfTrue/dnfFalse/dnfAtom/dnfNotAtom have the truth table of the constant / literal
 *   step : for ARBITRARY well-formed DNFs X, Y (DN_TX and DN_TY terms of <= DN_ATOMS literals each, literals
 *          symbolic) and a symbolic valuation v (= every row of the truth table):
 *              eval(dnfAnd(X,Y), v) == eval(X,v) && eval(Y,v)      likewise dnfOr, dnfNot
 *              dnfImplies(X,Y) ==> (eval(X,v) ==> eval(Y,v))       dnfEqual(X,Y) ==> same value
 *          and the result is well formed again.
 * Well formed = what the constructors produce: no null term, literals of a term strictly increasing in
 * |atom| (so no atom twice), and no term of a DNF syntactically implied by another (dnfOrMerge removes
 * those).  A failing step is then exhibited through the public constructors alone (h_dnf_witness_*).
 * Symbolic formulas built by nesting the real constructors are beyond the tool (symbolic shapes of
 * symbolic shapes: no result in 300 s for 4 leaves), hence the induction form.  BOUNDED by DN_ATOMS, DN_TX, DN_TY. */
#include "vharness.h"
#include "axlgen.h"
#include "store.h"
#include "dnf.h"

/* allocator stub.  dnf.c uses the struct hack (a term with k literals gets room for exactly k ints after the
 * count).  The verifier can neither follow that on objects smaller than the declared struct nor propagate
 * constants through untyped byte objects (then every loop bound becomes symbolic).  So the two allocation
 * sites of dnf.c (dnfAndNew, dnfOrNew) are routed -- by a macro on the NAME stoAlloc only, the unit's text is
 * untouched -- to a stub that hands out one whole, typed `struct dnf_And` / `struct dnf_Or` (NARY = 10
 * slots; a bigger request is a failed obligation: part of the bound).  The first slot PAST the requested
 * count is a guard value, remembered in a ghost table and checked by the harness: a write just past the
 * requested size is a failed obligation. */
#define DN_GUARD  0x5AFE5AFE
#define DN_MAXOBJ 64
static struct dnf_And	*g_tobj[DN_MAXOBJ];	/* terms handed out, and how many literals were asked for */
static unsigned long	g_tlen[DN_MAXOBJ];
static int		g_ntobj;
static MostAlignedType *v_alloc(const char *fn, ULong size)
{
	if (fn[3] == 'A') {		/* dnfAndNew */
		struct dnf_And *t = malloc(sizeof(struct dnf_And));
		unsigned long k = (size - (sizeof(struct dnf_And) - NARY * sizeof(DNF_Atom))) / sizeof(DNF_Atom);
#ifndef NATIVE_REPLAY
		__CPROVER_assume(t != 0);
		__CPROVER_assert(k <= NARY, "CHECK allocator stub: term has at most NARY literals (bound of this job)");
#endif
		if (k < NARY) t->argv[k] = DN_GUARD;
		if (g_ntobj < DN_MAXOBJ) { g_tobj[g_ntobj] = t; g_tlen[g_ntobj] = k; }
		g_ntobj++;
		return (MostAlignedType *) t;
	}
	else {				/* dnfOrNew */
		struct dnf_Or *d = malloc(sizeof(struct dnf_Or));
#ifndef NATIVE_REPLAY
		__CPROVER_assume(d != 0);
		__CPROVER_assert(size <= sizeof(struct dnf_Or), "CHECK allocator stub: DNF has at most NARY terms (bound of this job)");
#endif
		return (MostAlignedType *) d;
	}
}
#define stoAlloc(code, size) v_alloc(__func__, (size))
#include "dnf.c"
#undef stoAlloc
#define V_STUB_BUG_UNREACHABLE
#include "stubs.h"
void stoFree(Pointer p) { (void) p; }
static int dn_guards_intact(void)
{
	int k, ok = 1;
	for (k = 0; k < DN_MAXOBJ; k++)
		if (k < g_ntobj && g_tlen[k] < NARY && g_tobj[k]->argv[g_tlen[k]] != DN_GUARD) ok = 0;
	return ok && g_ntobj <= DN_MAXOBJ;
}

#ifndef DN_ATOMS
#define DN_ATOMS 3
#endif
#ifndef DN_TX
#define DN_TX 1
#endif
#ifndef DN_TY
#define DN_TY 1
#endif
#ifndef DN_MAXT
#define DN_MAXT 10		/* walk bound of the evaluator (terms); exceeded = failed obligation */
#endif

static int g_v[DN_ATOMS + 1];	/* the valuation: g_v[a] is the truth value of atom a */

static int dn_term_wf(DNF_And t)
{
	int j, a, prev = 0, ok = 1;
	if (!t || t->argc > DN_ATOMS) return 0;
	for (j = 0; j < DN_ATOMS; j++) if (j < (int) t->argc) {
		a = t->argv[j] < 0 ? -t->argv[j] : t->argv[j];
		if (a < 1 || a > DN_ATOMS || a <= prev) ok = 0;
		prev = a;
	}
	return ok;
}
static int dn_term_eval(DNF_And t)
{
	int j, a, tv = 1;
	for (j = 0; j < DN_ATOMS; j++) if (j < (int) t->argc) {
		a = t->argv[j] < 0 ? -t->argv[j] : t->argv[j];
		if (a >= 1 && a <= DN_ATOMS && (t->argv[j] > 0) != (g_v[a] != 0)) tv = 0;
	}
	return tv;
}
/* every literal of y occurs in x: the syntactic "x implies y" for consistent sorted terms */
static int dn_term_subsumes(DNF_And x, DNF_And y)
{
	int i, j, all = 1, found;
	for (j = 0; j < DN_ATOMS; j++) if (j < (int) y->argc) {
		found = 0;
		for (i = 0; i < DN_ATOMS; i++) if (i < (int) x->argc && x->argv[i] == y->argv[j]) found = 1;
		if (!found) all = 0;
	}
	return all;
}
/* truth value of a DNF under g_v; *wf is cleared if it is not well formed */
static int dn_eval(DNF x, int *wf)
{
	int i, k, val = 0;
	if (x->argc < 0 || x->argc > DN_MAXT) { *wf = 0; return 0; }
	for (i = 0; i < DN_MAXT; i++) if (i < x->argc) {
		if (!dn_term_wf(x->argv[i])) { *wf = 0; continue; }
		if (dn_term_eval(x->argv[i])) val = 1;
	}
	return val;
}

#define NODE_CHECK(what, d, expect) do { int wf_ = 1; \
	CHECK(what ": same truth value as the formula it was built from", dn_eval(d, &wf_) == ((expect) != 0)); \
	CHECK(what ": result well formed (no null term, literals sorted by atom, no atom twice)", wf_); } while (0)

/* (element-wise self-assignment: makes each array element show up in the verifier's trace so that the driver
 * can hand the counterexample to the native replay; no effect on the values) */
#define TRACE_ARR(x, n) do { int t_; for (t_ = 0; t_ < (n); t_++) x[t_] = x[t_]; } while (0)
#define VALUATION \
	INPUT_ARR(unsigned char, v, DN_ATOMS + 1); int vi_; \
	for (vi_ = 0; vi_ <= DN_ATOMS; vi_++) { ASSUME(v[vi_] <= 1); g_v[vi_] = v[vi_]; }

/* an arbitrary well-formed DNF with T terms, made with the real dnfOrNew/dnfAndNew and filled in */
static DNF dn_arbitrary(int T, const unsigned char *len, const int *lit)
{
	int i, j, k;
	DNF d = dnfOrNew(T);
	for (i = 0; i < T; i++) {
		ASSUME(len[i] <= DN_ATOMS);
		d->argv[i] = dnfAndNew(len[i]);
		for (j = 0; j < DN_ATOMS; j++) if (j < len[i]) d->argv[i]->argv[j] = lit[i * DN_ATOMS + j];
		ASSUME(dn_term_wf(d->argv[i]));
	}
	for (i = 0; i < T; i++) for (k = 0; k < T; k++)
		if (i != k) ASSUME(!dn_term_subsumes(d->argv[i], d->argv[k]));	/* merged: no term implied by another */
	return d;
}
#define ARBITRARY_XY \
	VALUATION; \
	INPUT_ARR(unsigned char, xlen, DN_TX); INPUT_ARR(int, xlit, DN_TX * DN_ATOMS); \
	INPUT_ARR(unsigned char, ylen, DN_TY); INPUT_ARR(int, ylit, DN_TY * DN_ATOMS); \
	TRACE_ARR(v, DN_ATOMS + 1); TRACE_ARR(xlen, DN_TX); TRACE_ARR(xlit, DN_TX * DN_ATOMS); \
	TRACE_ARR(ylen, DN_TY); TRACE_ARR(ylit, DN_TY * DN_ATOMS); \
	int wfx = 1, wfy = 1; \
	DNF X = dn_arbitrary(DN_TX, xlen, xlit), Y = dn_arbitrary(DN_TY, ylen, ylit); \
	int xv = dn_eval(X, &wfx), yv = dn_eval(Y, &wfy); \
	CHECK("harness: the constructed DNFs are well formed", wfx && wfy)

void h_dnf_or(void)
{
	ARBITRARY_XY;
	DNF R = dnfOr(X, Y);
#ifndef CANARY_dnf_or
	NODE_CHECK("dnfOr(X,Y)", R, xv || yv);
#else	/* canary: or confused with and */
	NODE_CHECK("canary dnfOr(X,Y)", R, xv && yv);
#endif
	CHECK("dnfOr: no write past an allocation", dn_guards_intact());
	CHECK("dnfOr: arguments keep their meaning", dn_eval(X, &wfx) == xv && dn_eval(Y, &wfy) == yv && wfx && wfy);
	VREACH();
}

void h_dnf_and(void)
{
	ARBITRARY_XY;
	DNF R = dnfAnd(X, Y);
	NODE_CHECK("dnfAnd(X,Y)", R, xv && yv);
	CHECK("dnfAnd: no write past an allocation", dn_guards_intact());
	CHECK("dnfAnd: arguments keep their meaning", dn_eval(X, &wfx) == xv && dn_eval(Y, &wfy) == yv && wfx && wfy);
	VREACH();
}

void h_dnf_not(void)
{
	VALUATION;
	INPUT_ARR(unsigned char, xlen, DN_TX); INPUT_ARR(int, xlit, DN_TX * DN_ATOMS);
	TRACE_ARR(v, DN_ATOMS + 1); TRACE_ARR(xlen, DN_TX); TRACE_ARR(xlit, DN_TX * DN_ATOMS);
	int wfx = 1;
	DNF X = dn_arbitrary(DN_TX, xlen, xlit);
	int xv = dn_eval(X, &wfx);
	DNF R = dnfNot(X);
	NODE_CHECK("dnfNot(X)", R, !xv);
	CHECK("dnfNot: no write past an allocation", dn_guards_intact());
	VREACH();
}

/* the decision procedures: a positive answer must hold in every row of the truth table */
void h_dnf_implies(void)
{
	ARBITRARY_XY;
#ifndef CANARY_dnf_implies
	CHECK("dnfImplies(X,Y) only if X => Y", !dnfImplies(X, Y) || !xv || yv);
#else	/* canary: direction reversed */
	CHECK("canary dnfImplies", !dnfImplies(X, Y) || !yv || xv);
#endif
	CHECK("dnfEqual(X,Y) only if X <=> Y", !dnfEqual(X, Y) || xv == yv);
	CHECK("dnfImplies(X,X), dnfEqual(X,X)", dnfImplies(X, X) && dnfEqual(X, X));
	CHECK("dnfIsTrue(X) only if X holds, dnfIsFalse(X) only if it does not", (!dnfIsTrue(X) || xv) && (!dnfIsFalse(X) || !xv));
	VREACH();
}

/* term level, both directions: for well-formed terms dnfAndImplies is exactly "every literal of y is in x",
 * which for satisfiable terms is exactly truth-table implication */
void h_dnf_term_implies(void)
{
	VALUATION;
	INPUT_ARR(unsigned char, xlen, 1); INPUT_ARR(int, xlit, DN_ATOMS);
	INPUT_ARR(unsigned char, ylen, 1); INPUT_ARR(int, ylit, DN_ATOMS);
	TRACE_ARR(v, DN_ATOMS + 1); TRACE_ARR(xlen, 1); TRACE_ARR(xlit, DN_ATOMS); TRACE_ARR(ylen, 1); TRACE_ARR(ylit, DN_ATOMS);
	DNF X = dn_arbitrary(1, xlen, xlit), Y = dn_arbitrary(1, ylen, ylit);
	Bool r = dnfAndImplies(X->argv[0], Y->argv[0]);
	CHECK("dnfAndImplies(x,y) == every literal of y occurs in x", (r != 0) == (dn_term_subsumes(X->argv[0], Y->argv[0]) != 0));
	CHECK("dnfAndImplies(x,y) only if x => y", !r || !dn_term_eval(X->argv[0]) || dn_term_eval(Y->argv[0]));
	VREACH();
}

/* term level: dnfAndMerge is conjunction; NULL exactly for a contradiction */
void h_dnf_term_merge(void)
{
	VALUATION;
	INPUT_ARR(unsigned char, xlen, 1); INPUT_ARR(int, xlit, DN_ATOMS);
	INPUT_ARR(unsigned char, ylen, 1); INPUT_ARR(int, ylit, DN_ATOMS);
	TRACE_ARR(v, DN_ATOMS + 1); TRACE_ARR(xlen, 1); TRACE_ARR(xlit, DN_ATOMS); TRACE_ARR(ylen, 1); TRACE_ARR(ylit, DN_ATOMS);
	DNF X = dn_arbitrary(1, xlen, xlit), Y = dn_arbitrary(1, ylen, ylit);
	int xv = dn_term_eval(X->argv[0]), yv = dn_term_eval(Y->argv[0]);
	DNF_And r = dnfAndMerge(X->argv[0], Y->argv[0]);
	CHECK("dnfAndMerge: NULL only for a contradiction", r != 0 || !(xv && yv));
	CHECK("dnfAndMerge: otherwise the conjunction, well formed", r == 0 || (dn_term_wf(r) && dn_term_eval(r) == (xv && yv)));
	CHECK("dnfAndMerge: no write past an allocation", dn_guards_intact());
	VREACH();
}

/* the simplification step of dnfOrMerge: whenever dnfAndImpliesNegation(x,y) allows it, x is replaced by
 * dnfAndCancelNegation(x,y); the disjunction x \/ y must keep its truth table */
void h_dnf_term_cancel(void)
{
	VALUATION;
	INPUT_ARR(unsigned char, xlen, 1); INPUT_ARR(int, xlit, DN_ATOMS);
	INPUT_ARR(unsigned char, ylen, 1); INPUT_ARR(int, ylit, DN_ATOMS);
	TRACE_ARR(v, DN_ATOMS + 1); TRACE_ARR(xlen, 1); TRACE_ARR(xlit, DN_ATOMS); TRACE_ARR(ylen, 1); TRACE_ARR(ylit, DN_ATOMS);
	DNF X = dn_arbitrary(1, xlen, xlit), Y = dn_arbitrary(1, ylen, ylit);
	int xv = dn_term_eval(X->argv[0]), yv = dn_term_eval(Y->argv[0]);
	if (dnfAndImpliesNegation(X->argv[0], Y->argv[0])) {
		DNF_And r = dnfAndCancelNegation(X->argv[0], Y->argv[0]);
		CHECK("dnfAndCancelNegation: no write past the allocated term", dn_guards_intact());
		CHECK("dnfAndCancelNegation: result well formed", dn_term_wf(r));
		CHECK("dnfAndCancelNegation: (x' or y) has the truth table of (x or y)", (dn_term_eval(r) || yv) == (xv || yv));
	}
	VREACH();
}

/* ---- base cases and witnesses: formulas built through the public constructors only (concrete shapes) */
void h_dnf_consts(void)
{
	VALUATION;
	INPUT(unsigned char, at); INPUT(unsigned char, neg);
	ASSUME(at >= 1 && at <= DN_ATOMS && neg <= 1);
	DNF x = neg ? dnfNotAtom(at) : dnfAtom(at);
	int xv = neg ? !g_v[at] : g_v[at];
	NODE_CHECK("dnfAtom/dnfNotAtom", x, xv);
	NODE_CHECK("dnfTrue", dnfTrue(), 1);
	NODE_CHECK("dnfFalse", dnfFalse(), 0);
	CHECK("dnfIsTrue/dnfIsFalse on the constants", dnfIsTrue(dnfTrue()) && dnfIsFalse(dnfFalse()) && !dnfIsTrue(dnfFalse()) && !dnfIsFalse(dnfTrue()));
	NODE_CHECK("x and true", dnfAnd(x, dnfTrue()), xv);
	NODE_CHECK("x and false", dnfAnd(x, dnfFalse()), 0);
	NODE_CHECK("x or true", dnfOr(x, dnfTrue()), 1);
	NODE_CHECK("x or false", dnfOr(x, dnfFalse()), xv);
	NODE_CHECK("not true", dnfNot(dnfTrue()), 0);
	NODE_CHECK("not false", dnfNot(dnfFalse()), 1);
	NODE_CHECK("not x", dnfNot(x), !xv);
	NODE_CHECK("copy", dnfCopy(x), xv);
	CHECK("false implies everything, everything implies true", dnfImplies(dnfFalse(), x) && dnfImplies(x, dnfTrue()));
	VREACH();
}

/* (a and b) or (not a and not b), and its use: the formula is not a tautology */
void h_dnf_witness_or(void)
{
	VALUATION;
	DNF ab = dnfAnd(dnfAtom(1), dnfAtom(2));
	DNF nanb = dnfAnd(dnfNotAtom(1), dnfNotAtom(2));
	NODE_CHECK("a and b", ab, g_v[1] && g_v[2]);
	NODE_CHECK("not a and not b", nanb, !g_v[1] && !g_v[2]);
	DNF r = dnfOr(ab, nanb);
	NODE_CHECK("(a and b) or (not a and not b)", r, (g_v[1] && g_v[2]) || (!g_v[1] && !g_v[2]));
	CHECK("(a and b) or (not a and not b) is not reported true", !dnfIsTrue(r));
	VREACH();
}

/* (a and not b) or b: the simplification that is sound (one-literal y) but writes past the new term */
void h_dnf_witness_cancel_overflow(void)
{
	VALUATION;
	DNF anb = dnfAnd(dnfAtom(1), dnfNotAtom(2));
	DNF r = dnfOr(anb, dnfAtom(2));
	NODE_CHECK("(a and not b) or b", r, (g_v[1] && !g_v[2]) || g_v[2]);
	CHECK("(a and not b) or b: no write past an allocation", dn_guards_intact());
	VREACH();
}

#ifdef NATIVE_REPLAY
V_NATIVE_MAIN(ENTRY)
#endif
