/* C20 harnesses for the hash table: the real table.c is included verbatim (tblNew0 and tblEnlarge are
 * file-local); util.c supplies the real binPrime/cielLg used by tblEnlarge.
 *
 * Model: a finite map from key CLASSES (keys equal under the table's equality) to values.
 * The checks are induction steps over an ARBITRARY well-formed table (any chain order, any collision
 * pattern -- the hash values themselves are symbolic), not only over the states one particular run reaches:
 *      base : tblNew gives a well-formed empty table
 *      step : WF(t) ~ model m, one symbolic operation (set / lookup / drop of a symbolic key)
 *             ==> result as the model says, WF(t') ~ m', size = |m'|
 *      iter : WF(t) ~ m ==> tblITER/tblMORE/tblSTEP visits each entry of m exactly once
 * By induction every operation sequence behaves as the finite map, for tables of <= TB_NC entries whose
 * bucket count is one of those the jobs fix (BOUNDED).
 * WF(t): every slot sits in bucket hash % buckc, carries the hash of its key, no two slots hold equal
 * keys, chains are acyclic, count is the number of slots.
 *
 * Two key disciplines, as at the call sites:
 *   TB_FUNS : tblNew(hash, eq) -- keys 2c and 2c+1 are equal (class c); hash(class) is a symbolic input
 *   default : tblNew(0, 0)     -- pointer identity; the key pointers themselves are symbolic inputs */
#include "vharness.h"
#define bug util_c_bug
#include "util.c"
#undef bug
#include "table.c"
#define V_STUB_BUG_UNREACHABLE
#include "stubs.h"

/* allocator stub: malloc/free, so that a slot used after tblDrop freed it is trapped */
MostAlignedType *stoAlloc(unsigned code, ULong size)
{
	void *p = malloc(size ? size : 1);
#ifndef NATIVE_REPLAY
	__CPROVER_assume(p != 0);
#endif
	return (MostAlignedType *) p;
}
void stoFree(Pointer p) { free(p); }

#ifndef TB_NC
#define TB_NC 3			/* key classes = most entries */
#endif
#ifndef TB_BUCKC
#define TB_BUCKC 2
#endif
#ifdef TB_FUNS
#define TB_NK (2 * TB_NC)	/* two equal keys per class */
#define TB_CLS(i) ((i) / 2)
#else
#define TB_NK TB_NC
#define TB_CLS(i) (i)
#endif

static Hash		g_hv[TB_NC];	/* TB_FUNS: hash of each class (symbolic)            */
static unsigned long	g_kv[TB_NK];	/* default: the key pointers (symbolic, distinct, != 0) */

#ifdef TB_FUNS
static TblKey	key_ptr(int i)		{ return (TblKey) (long) (i + 1); }
static int	key_index(TblKey k)	{ return (int) (long) k - 1; }
static Hash	h_hash(TblKey k)	{ int i = key_index(k); return (i >= 0 && i < TB_NK) ? g_hv[TB_CLS(i)] : 0; }
static Bool	h_eq(TblKey a, TblKey b){ return TB_CLS(key_index(a)) == TB_CLS(key_index(b)); }
#define HF h_hash
#define EF h_eq
#else
static TblKey	key_ptr(int i)		{ return (TblKey) g_kv[i]; }
static int	key_index(TblKey k)	{ int i; for (i = 0; i < TB_NK; i++) if ((unsigned long) k == g_kv[i]) return i; return -1; }
static Hash	h_hash(TblKey k)	{ return (Hash) k; }
#define HF ((TblHashFun) 0)
#define EF ((TblEqFun) 0)
#endif

/* the structure invariant, evaluated by walking the real structure; *seen gets the slot count per class */
static int tbl_wf(Table t, int *seen)
{
	Length x; int ok = 1, n = 0, steps, c, i;
	struct TblSlot *b;
	for (c = 0; c < TB_NC; c++) seen[c] = 0;
	if (t->buckc < 1) return 0;
	for (x = 0; x < t->buckc; x++) {
		for (b = t->buckv[x], steps = 0; b && steps <= TB_NC; b = b->next, steps++) {
			i = key_index(b->key);
			if (i < 0 || i >= TB_NK) { ok = 0; continue; }
			if (b->hash != h_hash(b->key)) ok = 0;
			if (b->hash % t->buckc != x) ok = 0;
			seen[TB_CLS(i)]++; n++;
		}
		if (b) ok = 0;		/* chain longer than the number of classes: duplicate or cycle */
	}
	for (c = 0; c < TB_NC; c++) if (seen[c] > 1) ok = 0;
	if ((Length) n != t->count) ok = 0;
	return ok;
}

/* an arbitrary well-formed table of exactly TB_N entries over TB_BUCKC buckets, built on the real
 * (file-local) constructor: slot j holds a key of class order[j] (order = distinct classes, symbolic),
 * pushed on the front of its bucket; every chain order and bucket assignment arises.
 * (The entry count is a constant per job -- jobs n=0..TB_NC together cover every count -- because one
 * copy with a symbolic count costs the solver far more.) */
#ifndef TB_N
#define TB_N TB_NC
#endif
/* TB_HMAX (optional, part of the job's stated bound): hash values / key pointers below TB_HMAX.  Used for the
 * 7-bucket jobs, where the solver cannot cope with 64-bit "% 7"; 128 > 7*13 still gives every combination of
 * residues modulo the old and the enlarged bucket count and every equal/unequal pattern. */
#ifdef TB_HMAX
#define TB_HOK(h) ((h) < TB_HMAX)
#else
#define TB_HOK(h) 1
#endif
#define ARBITRARY_TABLE \
	INPUT_ARR(Hash, hv, TB_NC); INPUT_ARR(unsigned long, kv, TB_NK); \
	INPUT_ARR(unsigned char, order, TB_NC); unsigned char present[TB_NC]; \
	INPUT_ARR(unsigned char, which, TB_NC); INPUT_ARR(unsigned long, val, TB_NC); \
	int c, j, q, seen[TB_NC]; Length mcount = 0; \
	for (c = 0; c < TB_NC; c++) { g_hv[c] = hv[c]; ASSUME(TB_HOK(hv[c])); present[c] = 0; } \
	for (j = 0; j < TB_NK; j++) { g_kv[j] = kv[j]; ASSUME(kv[j] != 0 && TB_HOK(kv[j])); for (q = 0; q < j; q++) ASSUME(kv[q] != kv[j]); } \
	Table t = tblNew0(HF, EF, TB_BUCKC); \
	for (j = 0; j < TB_N; j++) { \
		ASSUME(order[j] < TB_NC); for (q = 0; q < j; q++) ASSUME(order[q] != order[j]); \
		c = order[j]; \
		ASSUME(which[c] < TB_NK / TB_NC); \
		struct TblSlot *s = (struct TblSlot *) stoAlloc((unsigned) OB_Other, sizeof(*s)); \
		s->key = key_ptr(c * (TB_NK / TB_NC) + which[c]); s->elt = (TblElt) val[c]; s->hash = h_hash(s->key); \
		s->next = t->buckv[s->hash % t->buckc]; t->buckv[s->hash % t->buckc] = s; t->count++; mcount++; \
		present[c] = 1; \
	} \
	CHECK("harness: the constructed table is well formed", tbl_wf(t, seen))

void h_tbl_new(void)
{
	int seen[TB_NC];
	Table t = tblNew(HF, EF);
	CHECK("tblNew: empty", tblSize(t) == 0);
	CHECK("tblNew: well formed", tbl_wf(t, seen));
	CHECK("tblNew: a lookup finds nothing", tblElt(t, key_ptr(0), (TblElt) 99) == (TblElt) 99);
	VREACH();
}

void h_tbl_step(void)
{
	ARBITRARY_TABLE;
	INPUT(unsigned char, op); INPUT(unsigned char, ki); INPUT(unsigned char, gki);
	INPUT(unsigned long, v); INPUT(unsigned long, dflt);
	TblElt r; Table rt;
	ASSUME(op <= 2 && ki < TB_NK && gki < TB_NK);
	c = TB_CLS(ki);
	if (op == 0) {
		r = tblSetElt(t, key_ptr(ki), (TblElt) v);
		CHECK("tblSetElt: returns the value stored", r == (TblElt) v);
		if (!present[c]) mcount++;
		present[c] = 1; val[c] = v;
	}
	else if (op == 1) {
		r = tblElt(t, key_ptr(ki), (TblElt) dflt);
#ifndef CANARY_tbl_lookup
		CHECK("tblElt: the last value stored for an equal key, else the default", r == (TblElt) (present[c] ? val[c] : dflt));
#else		/* canary: only the very same key pointer finds its value */
		CHECK("tblElt canary", r == (TblElt) ((present[c] && which[c] == ki % (TB_NK / TB_NC)) ? val[c] : dflt));
#endif
	}
	else {
		rt = tblDrop(t, key_ptr(ki));
		CHECK("tblDrop: returns the table", rt == t);
#ifndef CANARY_tbl_drop
		if (present[c]) mcount--;
		present[c] = 0;
#endif		/* canary: the model keeps the entry, i.e. claims drop removes nothing */
	}
	CHECK("after the operation: size is the number of entries", tblSize(t) == mcount);
	CHECK("after the operation: the table is well formed", tbl_wf(t, seen));
	for (c = 0; c < TB_NC; c++)
		CHECK("after the operation: exactly the model's classes have a slot", seen[c] == present[c]);
	c = TB_CLS(gki);
	CHECK("after the operation: any key looks up as the model says (ghost key)",
	      tblElt(t, key_ptr(gki), (TblElt) dflt) == (TblElt) (present[c] ? val[c] : dflt));
	VREACH();
}

void h_tbl_iter(void)
{
	ARBITRARY_TABLE;
	TableIterator it; int visits[TB_NC], total = 0, i;
	for (c = 0; c < TB_NC; c++) visits[c] = 0;
	for (tblITER(it, t); tblMORE(it); tblSTEP(it)) {
		i = key_index(tblKEY(it));
		CHECK("iteration: yields a key of the table", i >= 0 && i < TB_NK);
		if (i >= 0 && i < TB_NK) {
			visits[TB_CLS(i)]++;
			CHECK("iteration: yields the value stored for that key", tblELT(it) == (TblElt) val[TB_CLS(i)]);
		}
		total++;
	}
	for (c = 0; c < TB_NC; c++)
#ifndef CANARY_tbl_iter
		CHECK("iteration: each entry exactly once, nothing else", visits[c] == present[c]);
#else		/* canary: entries may be skipped */
		CHECK("iteration canary", visits[c] == 0);
#endif
	CHECK("iteration: as many steps as entries", (Length) total == tblSize(t));
	VREACH();
}

/* growing: the real tblEnlarge on an arbitrary well-formed table keeps it well formed with the same entries */
void h_tbl_enlarge(void)
{
	ARBITRARY_TABLE;
	INPUT(unsigned char, gki); INPUT(unsigned long, dflt);
	Length oldbuckc = t->buckc;
	ASSUME(gki < TB_NK);
	tblEnlarge(t);
	CHECK("tblEnlarge: more buckets", t->buckc > oldbuckc);
	CHECK("tblEnlarge: size unchanged", tblSize(t) == mcount);
	CHECK("tblEnlarge: still well formed", tbl_wf(t, seen));
	for (c = 0; c < TB_NC; c++)
		CHECK("tblEnlarge: same classes present", seen[c] == present[c]);
	c = TB_CLS(gki);
	CHECK("tblEnlarge: any key looks up as before (ghost key)",
	      tblElt(t, key_ptr(gki), (TblElt) dflt) == (TblElt) (present[c] ? val[c] : dflt));
	VREACH();
}

/* tblCopy: an independent table with the same entries */
void h_tbl_copy(void)
{
	ARBITRARY_TABLE;
	INPUT(unsigned char, gki); INPUT(unsigned long, dflt);
	ASSUME(gki < TB_NK);
	Table n = tblCopy(t);
	c = TB_CLS(gki);
	CHECK("tblCopy: well formed", tbl_wf(n, seen));
	CHECK("tblCopy: same size", tblSize(n) == mcount);
	CHECK("tblCopy: same lookups (ghost key)", tblElt(n, key_ptr(gki), (TblElt) dflt) == (TblElt) (present[c] ? val[c] : dflt));
	tblDrop(n, key_ptr(gki));
	CHECK("tblCopy: dropping from the copy leaves the original alone",
	      tblElt(t, key_ptr(gki), (TblElt) dflt) == (TblElt) (present[c] ? val[c] : dflt) && tblSize(t) == mcount && tbl_wf(t, seen));
	VREACH();
}

#ifdef NATIVE_REPLAY
V_NATIVE_MAIN(ENTRY)
#endif
