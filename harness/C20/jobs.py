"""C20 jobs: containers (bit vectors, priority queue, hash table, B-tree) and the DNF."""

ASSUMPTIONS = [
    "BitvWord is a 64-bit unsigned word (bitv.h: typedef ULong BitvWord; LP64): the abstract view bit ix = (r[ix/64]>>(ix%64))&1 is stated from that, not from bitv.c's BpW",
    "bit-vector classes are made by the real bitvClassCreate from a non-negative int; vectors by the real bitvNew over an allocator stub (fresh, non-NULL, exactly the requested size), or -- whole-vector jobs -- are the last nwords words of a fixed array so that overruns leave the object",
    "bitv call-site preconditions: 0 <= ix < nbits (point operations), n <= nbits (bitvCountTo), 0 <= org and lim <= nbits (bitvUnique1IndexInRange), nbits < 32 (bitvToInt/bitvFromInt; asserted by the code); r, a, b are whole vectors of the class that are either identical or disjoint",
    "bitv: 1L << 63 in bitvTest/Set/Clear (bit 63 of a word) is evaluated with two's-complement wrap as gcc does; strictly it is signed-shift overflow (not checked: --no-standard-checks)",
    "priq/table/btree/dnf: proof by induction over operations -- each job starts from an ARBITRARY well-formed structure (well-formedness stated in the harness and re-established by every step) and performs one real operation; the size caps in each job's bound apply to that structure",
    "priq: keys are not NaN; priqExtractMin/priqPeekMin are called on non-empty queues only (of_inlin.c guards with priqCount)",
    "table: the hash function is consistent with the equality function (equal keys have equal hashes); both are given or both are 0, as at every call site",
    "table 7-bucket jobs and enlarge jobs: hash values / key pointers are < 16 (resp. < 128 for 7 -> 13 buckets), which still gives every residue pattern modulo the bucket counts involved",
    "btree node steps (btree_step_h.c): struct btree's nominal array bound NARY (cport.h: 10, 'enough to quiet bounds checking CCs') is raised to 2t+2 for that translation unit so that a node is ONE TYPED object with two guard parts; the unit requests the same number of bytes (checked in the node allocator); untouched subtrees are opaque pointers into a 64-byte non-node object",
    "btree whole insert / modular delete step on height-2 trees: the key count of every node is a constant of the job (one job per shape, t = 2); shapes with a 3-key root over more than 8 leaf keys give no result and are scheduled only with VERIF_PROBE_UNDECIDED=1; btreeDelete0's re-entries (on leaves) are bound to a model of its contract whose precondition (a leaf with more than t-1 keys that holds the key) is an obligation",
    "btree: btreeDeleteX is called for keys that are present (store.c deletes what it has just found); node allocator = one whole struct btree with unset branches NULL",
    "dnf: the two allocation sites of dnf.c are routed by a macro on the name stoAlloc to a stub that returns one whole typed struct dnf_And / dnf_Or (NARY slots), with a guard value just past the requested count",
]


def jobs(tier):
    js = []
    thorough = tier == "thorough"

    def J(name, src, entry, fns, inputs, cls="P", kind="obligation", timeout=None, **kw):
        d = {"name": name, "src": src, "entry": entry, "functions": fns, "inputs": inputs,
             "cls": cls, "kind": kind, "timeout": timeout or (900 if thorough else 240)}
        d.update(kw)
        js.append(d)
        return d

    # ------------------------------------------------------------------ bitv.c
    B = "bitv_h.c"
    PT_IN = ["nbits", "ix", "jx", "w", "w_ix", "w_jx", "w_w"]
    J("bitv.bitvClassCreate", B, "h_bitvClassCreate", ["bitvClassCreate"], ["nbits"],
      enforce=["bitvClassCreate/c_bitvClassCreate"], native=True)
    J("canary.bitv.bitvClassCreate", B, "h_bitvClassCreate", ["bitvClassCreate"], ["nbits"], kind="canary",
      defs=["-DCANARY_bitvClassCreate"], enforce=["bitvClassCreate/c_bitvClassCreate"])
    J("bitv.bitvNew", B, "h_bitvNew", ["bitvNew"], ["nbits"], enforce=["bitvNew/c_bitvNew"])
    for fn in ("bitvTest", "bitvSet", "bitvClear"):
        J("bitv." + fn, B, "h_" + fn, [fn], PT_IN, enforce=["%s/c_%s" % (fn, fn)], native=True)
    for fn, can in (("bitvTest", "bitvTest"), ("bitvSet", "bitvSet_post"), ("bitvSet", "bitvSet_frame"),
                    ("bitvClear", "bitvClear_post")):
        J("canary.bitv." + can, B, "h_" + fn, [fn], PT_IN, kind="canary", defs=["-DCANARY_" + can],
          enforce=["%s/c_%s" % (fn, fn)])
    # index loops: loop contracts spliced into a scratch copy of bitv.c; complete in the length
    LP = {"splice": {"bitv.c": "bitv.json"}, "loops": True}
    LOOPS = [("bitvMax", ["nbits", "jx", "w_jx"]), ("bitvCount", ["nbits", "jx", "w_jx"]),
             ("bitvCountTo", ["nbits", "jx", "w_jx", "n"]),
             ("bitvUnique1IndexInRange", ["nbits", "jx", "w_jx", "org", "lim"]),
             ("bitvToInt", ["nbits", "jx", "w_jx"]), ("bitvFromInt", ["nbits", "jx", "n"])]
    for fn, ins in LOOPS:
        J("bitv." + fn, B, "h_" + fn, [fn, "bitvTest"] + (["bitvSet", "bitvClear", "bitvNew"] if fn == "bitvFromInt" else []),
          ins, enforce=["%s/c_%s" % (fn, fn)], **LP)
        can = "bitvCount" if fn == "bitvCountTo" else fn
        J("canary.bitv." + fn, B, "h_" + fn, [fn], ins, kind="canary", defs=["-DCANARY_" + can],
          enforce=["%s/c_%s" % (fn, fn)], **LP)
    # whole-vector operations: pointer-stepping loops, bounded by unwinding (class B)
    maxw = 16 if thorough else 8
    WB = {"cls": "B", "bound": "nwords<=%d (nbits<=%d)" % (maxw, 64 * maxw),
          "cbmc": ["--unwind", str(maxw + 1), "--unwinding-assertions"]}
    WIN = ["nbits", "jx", "w", "wg", "rv", "av", "bv"]
    ALIASES = {0: "distinct", 1: "r_is_a", 2: "r_is_b", 3: "r_is_a_is_b", 4: "a_is_b"}
    WORDOPS = [("bitvAnd", (0, 1, 2, 3, 4)), ("bitvOr", (0, 1, 2, 3, 4)), ("bitvMinus", (0, 1, 2, 3, 4)),
               ("bitvNot", (0, 1)), ("bitvCopy", (0, 1)), ("bitvSetAll", (0,)), ("bitvClearAll", (0,)),
               ("bitvEqual", (0, 4))]
    for fn, als in WORDOPS:
        # contract enforced (incl. frame = the nwords words of r), one job per aliasing
        for al in als:
            J("bitv.%s.%s" % (fn, ALIASES[al]), B, "h_" + fn, [fn], WIN, enforce=["%s/c_%s" % (fn, fn)], native=True,
              defs=["-DALIAS=%d" % al, "-DBV_MAXW=%d" % maxw], **WB)
    for can, fn in (("bitvAnd", "bitvAnd"), ("bitvMinus", "bitvMinus"), ("bitvCopy", "bitvCopy"),
                    ("bitvClearAll", "bitvClearAll"), ("bitvEqual", "bitvEqual")):
        J("canary.bitv." + can, B, "h_" + fn, [fn], WIN, kind="canary", enforce=["%s/c_%s" % (fn, fn)],
          defs=["-DCANARY_" + can, "-DALIAS=0", "-DBV_MAXW=%d" % maxw], **WB)
    J("canary.bitv.bitvOr_frame", B, "h_bitvOr", ["bitvOr"], WIN, kind="canary", enforce=["bitvOr/c_bitvOr"],
      defs=["-DCANARY_bitvOr_frame", "-DALIAS=0", "-DBV_MAXW=%d" % maxw], **WB)
    J("bitv.dflow_step_in_place", B, "h_bitv_dflow_step", ["bitvOr", "bitvMinus", "bitvTest"], WIN + ["kv", "alias"], native=True,
      defs=["-DBV_MAXW=%d" % maxw], **WB)
    J("bitv.bitvResize", B, "h_bitvResize", ["bitvResize", "bitvNew", "bitvFree"], ["nbits", "newbits", "jx", "bv"], native=True,
      defs=["-DBV_MAXW=%d" % maxw], **WB)
    J("bitv.empty_class", B, "h_bitv_empty", ["bitvSetAll", "bitvClearAll", "bitvCopy", "bitvNot", "bitvAnd", "bitvOr",
      "bitvMinus", "bitvEqual", "bitvCount", "bitvMax"], [], cbmc=["--unwind", "2", "--unwinding-assertions"], native=True)
    modbits = 40 if thorough else 24
    for nm, fns, ins in (("count", ["bitvCount", "bitvCountTo", "bitvTest"], ["nbits", "rv", "n"]),
                         ("max", ["bitvCount", "bitvCountTo", "bitvMax", "bitvTest"], ["nbits", "rv"]),
                         ("unique", ["bitvUnique1IndexInRange", "bitvTest"], ["nbits", "rv", "org", "lim"])):
        J("bitv.model_" + nm, B, "h_bitv_model_" + nm, fns, ins, cls="B", bound="nbits<=%d" % modbits, native=True,
          defs=["-DBV_MODW=1", "-DBV_MODBITS=%d" % modbits],
          cbmc=["--unwind", str(modbits + 1), "--unwinding-assertions"], timeout=900 if thorough else 240)
    for nb in (1, 63, 64, 65, 127, 128, 129):
        J("bitv.model_words.nbits%d" % nb, B, "h_bitv_model_words", ["bitvMax", "bitvTest"], ["rv", "jx"], cls="B",
          bound="nbits = %d; every bit pattern" % nb, native=True, defs=["-DBV_NB=%d" % nb],
          cbmc=["--unwind", "132", "--unwinding-assertions"], timeout=900 if thorough else 240)
    J("bitv.int_roundtrip", B, "h_bitvInt_roundtrip", ["bitvFromInt", "bitvToInt", "bitvSet", "bitvClear", "bitvTest"], ["nbits", "n"],
      cbmc=["--unwind", "32", "--unwinding-assertions"], native=True, defs=["-DV_ALLOC_SIMPLE"])

    # ------------------------------------------------------------------ priq.c (bounded)
    Q = "priq_h.c"
    PQF = ["priqNew", "priqInsert", "priqExtractMin", "heapInsert", "heapExtractMin", "heapSiftInward", "heapSiftOutward"]

    def pq_unw(entry, size, nloops, n):
        depth = size.bit_length() + 2
        return ["--unwindset", ",".join(["cielLg.0:8", "pq_heap_ordered.0:%d" % (2 * size + 1), "pq_count.0:%d" % (2 * size + 1),
                                         "pq_arbitrary.0:%d" % (size + 1), "sort_n.0:%d,sort_n.1:%d" % (size + 1, size + 1), "extract_step.0:%d" % (size + 1), "peek_step.0:%d" % (size + 1),
                                         "heapSiftInward.0:%d" % depth, "heapSiftOutward.0:%d" % depth] +
                                        ["%s.%d:%d" % (entry, i, n + 1) for i in range(nloops)]),
                "--unwinding-assertions"]
    J("priq.new", Q, "h_priq_new", ["priqNew", "cielLg"], ["guess"], cls="B", bound="argcGuess<=64", native=True,
      cbmc=["--unwindset", "cielLg.0:8,pq_heap_ordered.0:2", "--unwinding-assertions"])
    AQ = ["n", "key", "ent", "gk", "ge"]
    top = 12 if thorough else 8       # (n = 13..15 did not finish in 900 s)
    to = 1800 if thorough else 240
    # insert into a FULL queue of every size up to the cap (doubles through stoResize), one job per size
    sz = 1
    while sz <= (16 if thorough else 8):
        J("priq.insert_step.full%d" % sz, Q, "h_priq_insert_step", ["priqInsert", "heapInsert", "heapSiftInward"], AQ + ["k", "e"],
          cls="B", bound="any well-formed full queue of %d entries in %d slots" % (sz, sz), native=True,
          defs=["-DPQ_SIZE=%d" % sz, "-DPQ_NLO=%d" % sz, "-DPQ_NHI=%d" % sz], cbmc=pq_unw("h_priq_insert_step", sz, 1, 2), timeout=to)
        sz *= 2
    # insert into / extract from a queue of n entries in psz slots, n = 0..top, one job per n (together: every n)
    psz = 16 if thorough else 8
    for n in range(0, top + 1):
        d = ["-DPQ_SIZE=%d" % psz, "-DPQ_NLO=%d" % n, "-DPQ_NHI=%d" % n]
        bd = "any well-formed queue of exactly %d entries (jobs n=0..%d together: <=%d entries)" % (n, top, top)
        if n < psz:
            J("priq.insert_step.n%d" % n, Q, "h_priq_insert_step", ["priqInsert", "heapInsert", "heapSiftInward"], AQ + ["k", "e"],
              cls="B", bound=bd, native=True, defs=d, cbmc=pq_unw("h_priq_insert_step", psz, 1, n + 2), timeout=to)
        if n >= 1:
            J("priq.extract_step.n%d" % n, Q, "h_priq_extract_step", ["priqExtractMin", "heapExtractMin", "heapSiftOutward"], AQ + ["g"],
              cls="B", bound=bd, native=True, defs=d, cbmc=pq_unw("h_priq_extract_step", psz, 1, n + 2), timeout=to)
    J("priq.peek_step", Q, "h_priq_peek_step", ["priqPeekMin", "heapPeekMin"], AQ + ["g"], cls="B",
      bound="any well-formed queue of 1..8 entries", native=True, defs=["-DPQ_SIZE=8"], cbmc=pq_unw("h_priq_peek_step", 8, 1, 9), timeout=to)
    d = ["-DPQ_SIZE=4"]
    J("canary.priq.insert_step", Q, "h_priq_insert_step", ["priqInsert"], AQ + ["k", "e"], cls="B", kind="canary",
      defs=d + ["-DCANARY_priq_insert"], cbmc=pq_unw("h_priq_insert_step", 4, 1, 5))
    J("canary.priq.extract_step", Q, "h_priq_extract_step", ["priqExtractMin"], AQ + ["g"], cls="B", kind="canary",
      defs=d + ["-DCANARY_priq_extract"], cbmc=pq_unw("h_priq_extract_step", 4, 1, 5))
    maxn = 5 if thorough else 4
    d = ["-DPQ_MAXN=%d" % maxn]
    J("priq.integration.sort", Q, "h_priq_sort", PQF, ["n", "key"], cls="B", native=True, bound="<=%d entries" % maxn, defs=d,
      cbmc=pq_unw("h_priq_sort", 8, 1, maxn + 1), timeout=2400 if thorough else 240)
    J("canary.priq.sort", Q, "h_priq_sort", PQF, ["n", "key"], cls="B", kind="canary", defs=d + ["-DCANARY_priq_sort"],
      cbmc=pq_unw("h_priq_sort", 8, 1, maxn + 1), bound="<=%d entries" % maxn)

    # ------------------------------------------------------------------ table.c (bounded)
    T = "table_h.c"
    TIN = ["hv", "kv", "order", "present", "which", "val"]
    enl = {1: 2, 2: 3, 3: 7, 7: 13}     # tblEnlarge: buckc -> binPrime(cielLg(buckc)+1)

    def tb_unw(entry, nc, nk, buckc):
        # loop ids are numbered in goto-program order: an inner loop comes BEFORE the loop that encloses it
        ch = nc + 2                         # chain walks (chains hold <= nc slots)
        bk = max(buckc, enl[buckc]) + 2     # bucket-array walks (old or enlarged array)
        us = ["tblNew0.0:%d" % bk, "tblElt.0:%d" % ch, "tblSetElt.0:%d" % ch, "tblDrop.0:%d" % ch,
              "tblEnlarge.0:%d" % bk, "tblEnlarge.1:%d" % ch, "tblEnlarge.2:%d" % bk, "cielLg.0:6",
              "tblCopy.0:%d" % ch, "tblCopy.1:%d" % bk, "_tblSTEP.0:%d" % bk, "key_index.0:%d" % (nk + 1),
              "tbl_wf.0:%d" % (nc + 1), "tbl_wf.1:%d" % ch, "tbl_wf.2:%d" % bk, "tbl_wf.3:%d" % (nc + 1)]
        us += ["%s.%d:%d" % (entry, i, nk + 3) for i in range(10)]
        return ["--unwindset", ",".join(us), "--unwinding-assertions"]

    def tb(name, entry, fns, ins, funs, nc, buckc, n=None, kind="obligation", extra=(), timeout=None, hmax=None):
        nk = 2 * nc if funs else nc
        n = nc if n is None else n
        bd = "any well-formed table of exactly %d entries (<=%d key classes) over %d buckets, %s" % (
            n, nc, buckc, "hash/eq functions with symbolic hash values" if funs else "pointer keys (symbolic pointers)")
        if hmax:
            bd += ", hash values/pointers < %d" % hmax
        J(name, T, entry, fns, TIN + ins, cls="B", kind=kind, native=True, bound=bd,
          defs=(["-DTB_FUNS"] if funs else []) + ["-DTB_NC=%d" % nc, "-DTB_BUCKC=%d" % buckc, "-DTB_N=%d" % n]
               + (["-DTB_HMAX=%d" % hmax] if hmax else []) + list(extra),
          cbmc=tb_unw(entry, nc, nk, buckc), timeout=timeout or (900 if thorough else 240))
    J("table.new", T, "h_tbl_new", ["tblNew", "tblNew0", "tblElt", "tblSize"], [], cls="B", bound="empty table", native=True,
      defs=["-DTB_FUNS"], cbmc=tb_unw("h_tbl_new", 3, 6, 7))
    STEPF = ["tblSetElt", "tblElt", "tblDrop", "tblSize", "tblEnlarge"]
    SIN = ["op", "ki", "gki", "v", "dflt"]
    nc = 3
    for funs in (True, False):
        tag = "funs" if funs else "ptr"
        for buckc in (1, 2, 7):
            hm = 16 if buckc == 7 else None
            # 7 buckets (what tblNew makes) with >= 2 entries: minutes per job, thorough tier only
            top = nc if buckc != 7 else ((3 if funs else 2) if thorough else 1)   # ptr, 7 buckets, 3 entries: no result in 1800 s
            for n in range(0, top + 1):
                tb("table.step.%s.b%d.n%d" % (tag, buckc, n), "h_tbl_step", STEPF, SIN, funs, nc, buckc, n=n, hmax=hm,
                   timeout=1800 if buckc == 7 and n >= 2 else None)
                tb("table.iter.%s.b%d.n%d" % (tag, buckc, n), "h_tbl_iter", ["_tblITER", "_tblSTEP"], [], funs, nc, buckc, n=n, hmax=hm,
                   timeout=1800 if buckc == 7 and n >= 2 else None)
        tb("table.enlarge.%s.b2" % tag, "h_tbl_enlarge", ["tblEnlarge", "tblElt"], ["gki", "dflt"], funs, nc, 2, hmax=16)
        tb("table.copy.%s.b2" % tag, "h_tbl_copy", ["tblCopy", "tblDrop", "tblElt"], ["gki", "dflt"], funs, nc, 2)
        if thorough:
            for n in range(0, 5):
                tb("table.step.%s.nc4.b2.n%d" % (tag, n), "h_tbl_step", STEPF, SIN, funs, 4, 2, n=n, timeout=1800)
    if thorough:
        # growth through tblSetElt itself: 1 bucket holding TBL_MaxLoad = 5 entries, the 6th distinct key enlarges
        tb("table.step.ptr.b1.n5_grows", "h_tbl_step", STEPF, SIN, False, 6, 1, n=5, timeout=2400)
    tb("canary.table.lookup", "h_tbl_step", ["tblElt"], SIN, True, 3, 2, kind="canary", extra=["-DCANARY_tbl_lookup"])
    tb("canary.table.drop", "h_tbl_step", ["tblDrop"], SIN, True, 3, 2, kind="canary", extra=["-DCANARY_tbl_drop"])
    tb("canary.table.iter", "h_tbl_iter", ["_tblITER", "_tblSTEP"], [], True, 3, 2, kind="canary", extra=["-DCANARY_tbl_iter"])

    # ------------------------------------------------------------------ dnf.c (bounded)
    D = "dnf_h.c"
    DCHK = ["--no-standard-checks", "--no-malloc-may-fail", "--pointer-check", "--div-by-zero-check"]   # struct-hack arrays: no --bounds-check
    DUNW = ["--unwindset", "dn_guards_intact.0:65", "--unwind", "12", "--unwinding-assertions"]          # NARY = 10 slots + 1
    TERMF = ["dnfAndMerge", "dnfAndImplies", "dnfAndImpliesNegation", "dnfAndCancelNegation", "dnfAndNew", "dnfAndCopy"]

    def dn(name, entry, fns, ins, tx=1, ty=1, kind="obligation", extra=(), timeout=None):
        J(name, D, entry, fns, ["v"] + ins, cls="B", kind=kind, native=True, checks=DCHK, cbmc=DUNW,
          bound="<=3 atoms; any well-formed X with %d and Y with %d terms" % (tx, ty),
          defs=["-DDN_TX=%d" % tx, "-DDN_TY=%d" % ty] + list(extra), timeout=timeout or (2400 if thorough else 240))
    XY = ["xlen", "xlit", "ylen", "ylit"]
    dn("dnf.constants_and_literals", "h_dnf_consts", ["dnfTrue", "dnfFalse", "dnfAtom", "dnfNotAtom", "dnfIsTrue", "dnfIsFalse", "dnfCopy"], ["at", "neg"])
    dn("dnf.term.dnfAndMerge", "h_dnf_term_merge", TERMF, XY)
    dn("dnf.term.dnfAndImplies", "h_dnf_term_implies", TERMF, XY)
    dn("dnf.term.dnfAndCancelNegation", "h_dnf_term_cancel", TERMF, XY)
    sizes = ((1, 1), (1, 2), (2, 1)) + (((2, 2), (3, 1), (1, 3)) if thorough else ())
    for tx, ty in sizes:
        dn("dnf.dnfOr.%dx%d" % (tx, ty), "h_dnf_or", ["dnfOr", "dnfOrMerge", "dnfIsTrue", "dnfIsFalse"] + TERMF, XY, tx, ty)
        dn("dnf.dnfAnd.%dx%d" % (tx, ty), "h_dnf_and", ["dnfAnd", "dnfOrMerge", "dnfIsTrue", "dnfIsFalse"] + TERMF, XY, tx, ty)
        dn("dnf.dnfImplies_dnfEqual.%dx%d" % (tx, ty), "h_dnf_implies", ["dnfImplies", "dnfEqual", "dnfAndImplies"], XY, tx, ty)
    for tx in (1,):      # 2 terms: no result in 2400 s
        dn("dnf.dnfNot.%d" % tx, "h_dnf_not", ["dnfNot", "dnfAnd", "dnfAndNot", "dnfOrMerge"] + TERMF, XY[:2], tx, 1)
    dn("dnf.witness.or_of_and_terms", "h_dnf_witness_or", ["dnfOr", "dnfAnd", "dnfAtom", "dnfNotAtom", "dnfOrMerge", "dnfAndCancelNegation"], [])
    dn("dnf.witness.cancel_writes_past_term", "h_dnf_witness_cancel_overflow", ["dnfOr", "dnfAnd", "dnfOrMerge", "dnfAndCancelNegation"], [])
    dn("canary.dnf.or", "h_dnf_or", ["dnfOr"], XY, 1, 1, kind="canary", extra=["-DCANARY_dnf_or"])
    dn("canary.dnf.implies", "h_dnf_implies", ["dnfImplies"], XY, 1, 1, kind="canary", extra=["-DCANARY_dnf_implies"])

    # ------------------------------------------------------------------ btree.c (bounded; t = 2)
    BT = "btree_h.c"
    BCHK = ["--no-standard-checks", "--no-malloc-may-fail", "--pointer-check", "--div-by-zero-check"]   # struct-hack part[]
    BIN = ["keys", "ents", "cnts", "gk", "ge"]

    def bt(name, entry, fns, ins, h, kind="obligation", extra=(), timeout=None):
        us = ["h_alloc.0:6", "bt_guards_intact.0:%d" % (1 + 4 + 16 + h + 4), "%s.0:%d" % (entry, 3 * 21 + 2), "%s.1:%d" % (entry, 23),
              "bt_count:%d" % (h + 2), "bt_wf:%d" % (h + 2), "bt_arbitrary:4", "btreeCheck0:%d" % (h + 1), "btreeDelete0:%d" % h,
              "btreeInsertX.1:%d" % (h + 2), "btreeSearchMax.0:%d" % (h + 1), "btreeSearchMin.0:%d" % (h + 1),
              "btreeSearchEQ.1:%d" % (h + 1), "btreeSearchGE.1:%d" % (h + 1)]
        J(name, BT, entry, fns, BIN + ins, cls="B", kind=kind, native=True, checks=BCHK,
          bound="t=2, any well-formed tree of height %d (<=%d keys)" % (h, {1: 3, 2: 15, 3: 63}[h]),
          defs=["-DBT_T=2", "-DBT_H=%d" % h] + list(extra), cbmc=["--unwindset", ",".join(us), "--unwind", "5", "--unwinding-assertions"],
          timeout=timeout or (1800 if thorough else 240))
    SRCH = ["btreeSearchEQ", "btreeSearchGE", "btreeSearchMin", "btreeSearchMax"]
    bt("btree.new", "h_bt_new", ["btreeNewX", "btreeCheck"] + SRCH[:2], [], 1)
    bt("btree.search.h1", "h_bt_search", SRCH, ["k"], 1)
    bt("btree.check.h1", "h_bt_check", ["btreeCheck", "btreeCheck0"], [], 1)
    bt("canary.btree.search", "h_bt_search", SRCH, ["k"], 1, kind="canary", extra=["-DCANARY_bt_search"])
    # node steps (split, unsplit, rotations) against the in-order-sequence contract, t a constant of the job
    BS = "btree_step_h.c"
    STEPS = (("split", "btreeSplitChild"), ("unsplit", "btreeUnsplitChild"), ("rotdown", "btreeRotateDown"), ("rotup", "btreeRotateUp"))
    SIN = ["x_k", "x_e", "x_b", "x_n", "x_leaf", "y_k", "y_e", "y_b", "y_n", "y_leaf", "z_k", "z_e", "z_b", "z_n", "z_leaf", "n", "i", "zn", "g"]
    for t in ((2, 3) if not thorough else (2, 3, 4)):
        for nm, fn in STEPS:
            J("btree.step.%s.t%d" % (nm, t), BS, "h_bt_" + nm, [fn], SIN,
              cls="B", bound="t = %d; every key count the call sites allow, every position, any keys/entries/subtrees" % t, native=True, checks=BCHK,
              defs=["-DBT_T=%d" % t], cbmc=["--unwind", str(2 * t + 3), "--unwinding-assertions"], timeout=1800 if thorough else 600)
    # t = 16 is store.c's MixedBTreeT, the only t the compiler uses: 496 (count, position) cases per step are too many for
    # one job; a sample of cases (first / middle / last position, smallest / largest counts), one case per job
    T16 = {"split": [(0, 0, 0), (30, 0, 0), (30, 30, 0), (30, 15, 0), (15, 7, 0)],
           "unsplit": [(1, 0, 0), (31, 0, 0), (31, 30, 0), (31, 15, 0)],
           "rotdown": [(0, 0, 31), (0, 0, 16), (0, 30, 16), (0, 30, 31), (0, 15, 20)],
           "rotup": [(0, 0, 31), (0, 0, 16), (0, 30, 16), (0, 30, 31), (0, 15, 20)]}
    for nm, fn in STEPS:
        for (cn, ci, cz) in (T16[nm] if thorough else T16[nm][1:3]):
            J("btree.step.%s.t16.n%d_i%d_zn%d" % (nm, cn, ci, cz), BS, "h_bt_" + nm, [fn], SIN, cls="B", native=True, checks=BCHK,
              bound="t = 16, ONE case: x has %s keys, position %d, donor sibling has %s keys; any keys/entries/subtrees" % (cn or "any number of", ci, cz or "-"),
              defs=["-DBT_T=16", "-DBT_ONLY_N=%d" % cn, "-DBT_ONLY_I=%d" % ci, "-DBT_ONLY_ZN=%d" % cz],
              cbmc=["--unwind", "35", "--unwinding-assertions"], timeout=900)
    for nm in ("split", "unsplit", "rotup"):
        J("canary.btree.step." + nm, BS, "h_bt_" + nm, [], ["i", "g"], cls="B", kind="canary", checks=BCHK,
          defs=["-DBT_T=2", "-DCANARY_bt_" + nm], cbmc=["--unwind", "16", "--unwinding-assertions"], timeout=600)
    import itertools
    shapes2 = [(r,) + cs for r in (1, 2, 3) for cs in itertools.product((1, 2, 3), repeat=r + 1)]
    QUICK2 = {(1, 1, 1), (1, 3, 3), (1, 1, 3), (1, 3, 1), (2, 1, 3, 2), (3, 1, 1, 1, 1)}
    # the fullest shapes (root with 3 keys over more than 8 keys in the leaves) give no result in 600-900 s: scheduled only
    # with VERIF_PROBE_UNDECIDED=1; the split of a full root / full child and the merges they exercise are covered by
    # the node-step jobs above and by shapes with a 1- or 2-key root
    import os
    if os.environ.get("VERIF_PROBE_UNDECIDED") != "1":
        shapes2 = [sh for sh in shapes2 if not (sh[0] == 3 and sum(sh[1:]) > 8)]
    # whole insert / delete on height-2 trees, ONE JOB PER SHAPE (key count of every node a constant of the job, keys and
    # entries symbolic): structural decisions depend on key counts only, so the verifier walks concrete pointers;
    # the union of the 117 shapes is every well-formed tree of height 2 for t = 2.  quick: 6 shapes; thorough: 51 (see below).
    for sh in shapes2:
        if not thorough and sh not in QUICK2:
            continue
        tag = "".join(map(str, sh))
        bt("btree.insert.h2.shape%s" % tag, "h_bt_insert", ["btreeInsertX", "btreeSplitChild"], ["k", "e"], 2,
           extra=["-DBT_SHAPE=" + ",".join(map(str, sh))], timeout=900 if not thorough else 2400)
    # delete, one level, MODULAR over btreeDelete0's recursion: the real step on the root of an arbitrary height-2 tree,
    # re-entries (on leaves) bound to a model whose precondition is an obligation
    DEL_SPLICE = {"btree.c": {"_rename_def": {"btreeDelete0": "btreeDelete0__real"}}}
    for sh in shapes2:
        if not thorough and sh not in QUICK2:
            continue
        bt("btree.delete.h2.shape%s.step_modulo_recursion" % "".join(map(str, sh)), "h_bt_delete",
           ["btreeDelete0", "btreeUnsplitChild", "btreeRotateUp", "btreeRotateDown", "btreeSearchMin", "btreeSearchMax"],
           ["k"], 2, extra=["-DBT_MODEL_DELETE0", "-DBT_SHAPE=" + ",".join(map(str, sh))], timeout=900 if not thorough else 2400)
        js[-1]["splice"] = DEL_SPLICE
        js[-1]["assumed"] = ["re-entries of btreeDelete0 (on leaves) replaced by a model of its contract: removes one pair with key k from a leaf that has more than t-1 keys; the precondition is an obligation at every re-entry; the real leaf case is checked in btree.delete.h1"]
    if thorough:
        # minutes per job even for a single leaf (the unit walks nodes by pointer and recurses without a leaf test on
        # the key-absent path, which the verifier must explore): not in the quick tier
        bt("btree.delete.h1", "h_bt_delete", ["btreeDeleteX", "btreeDelete0"], ["k"], 1)
        bt("btree.insert.h1", "h_bt_insert", ["btreeInsertX", "btreeSplitChild"], ["k", "e"], 1)
        bt("canary.btree.delete", "h_bt_delete", ["btreeDeleteX"], ["k"], 1, kind="canary", extra=["-DCANARY_bt_delete"])
        bt("btree.search.h2", "h_bt_search", SRCH, ["k"], 2)
        bt("btree.check.h2", "h_bt_check", ["btreeCheck", "btreeCheck0"], [], 2)
        # height 2 insert/delete (split of a child, unsplit, rotations): the verifier runs out of 8 GB / gives no result in 1 h -- NOT covered
    return js
