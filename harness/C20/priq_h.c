/* C20 harnesses for the priority queue: the real priq.c (heap functions are file-local) is included
 * verbatim; util.c supplies the real cielLg used by priqNew.
 *
 * Model: a queue is the multiset of (key, entry) pairs in argv[0..argc).  The checks are the two
 * induction steps over an ARBITRARY well-formed queue state (not only states some particular operation
 * sequence reaches):
 *      insert : WF(q)            ==> WF(q'), pairs(q') = pairs(q) + {(k,e)}
 *      extract: WF(q), argc > 0  ==> WF(q'), returned (k,e) in pairs(q), k <= every key of q,
 *                                    pairs(q') = pairs(q) - {(k,e)}
 * plus the base case (priqNew gives a WF empty queue).  By induction every sequence of inserts and
 * extracts (extract only on a non-empty queue, as at the call sites) returns minima in order and returns a
 * permutation of what was put in -- for queues that never hold more than PQ_SIZE*2 entries (BOUNDED).
 * WF = 1 <= size, argc <= size, argv has size slots, no child key below its parent's.
 * One end-to-end run (insert n keys, extract n) is kept as a small integration check; an end-to-end run
 * over a symbolic interleaving exhausts 8 GB already at 4 operations (symbolic-size stoResize) and is
 * not run: the induction steps cover interleavings. */
#define bug util_c_bug
#include "util.c"
#undef bug
#include "priq.c"
#include "vharness.h"
#define V_STUB_BUG_UNREACHABLE
#define V_STUB_STO
#include "stubs.h"

#ifndef PQ_SIZE
#define PQ_SIZE 8		/* slots allocated by priqNew(PQ_SIZE) (a power of two) */
#endif
#ifndef PQ_MAXN
#define PQ_MAXN 4		/* integration runs: entries ever in the queue */
#endif

/* structure relation the extraction order rests on: no child key below its parent's (equal keys allowed;
 * the unit's own heapCheck demands strict order and so rejects legal queues with equal keys) */
static int pq_heap_ordered(PriQ pq)
{
	Length j; int ok = 1;
	for (j = 1; j < pq->argc; j++)
		if (!(pq->argv[(j - 1) / 2].key <= pq->argv[j].key)) ok = 0;
	return ok;
}
static unsigned long pq_keybits(double d) { union { double d; unsigned long u; } x; x.d = d; return x.u; }
/* multiplicity of the pair (k, e) in the queue, keys compared bit for bit */
static int pq_count(PriQ pq, double k, PriQElt e)
{
	Length j; int c = 0;
	for (j = 0; j < pq->argc; j++)
		if (pq->argv[j].entry == e && pq_keybits(pq->argv[j].key) == pq_keybits(k)) c++;
	return c;
}

/* an arbitrary well-formed queue with n entries in PQ_SIZE slots, built on the real priqNew.
 * The body of each step is run under "if (n == N)" for each constant N: the entry count is then a
 * constant in each copy (same coverage: every n in 0..PQ_SIZE; far cheaper for the solver than one
 * copy with a symbolic count). */
#ifndef PQ_NLO			/* a job may cover only the entry counts PQ_NLO..PQ_NHI (the jobs together cover 0..PQ_SIZE) */
#define PQ_NLO 0
#endif
#ifndef PQ_NHI
#define PQ_NHI PQ_SIZE
#endif
#define ARBITRARY_QUEUE_INPUTS \
	INPUT(unsigned, n); INPUT_ARR(double, key, PQ_SIZE); INPUT_ARR(unsigned long, ent, PQ_SIZE); \
	INPUT(double, gk); INPUT(unsigned long, ge); \
	ASSUME(PQ_NLO <= n && n <= PQ_NHI && n <= PQ_SIZE)

static PriQ pq_arbitrary(unsigned N, double *key, unsigned long *ent)
{
	unsigned i;
	PriQ pq = priqNew(PQ_SIZE);
	CHECK("priqNew: the slots asked for, none used", pq->size == PQ_SIZE && pq->argc == 0);
	for (i = 0; i < N; i++) {
		ASSUME(key[i] == key[i]);	/* no NaN keys */
		pq->argv[i].key = key[i]; pq->argv[i].entry = (PriQElt) ent[i];
	}
	pq->argc = N;
	ASSUME(pq_heap_ordered(pq));
	return pq;
}

void h_priq_new(void)
{
	INPUT(Length, guess);
	ASSUME(guess <= 64);
	PriQ pq = priqNew(guess);
	CHECK("priqNew: empty", priqCount(pq) == 0);
	CHECK("priqNew: at least one slot and at least as many as asked for", pq->size >= 1 && pq->size >= guess);
	CHECK("priqNew: an empty queue is well formed", pq_heap_ordered(pq));
	pq->argv[pq->size - 1].key = 0;	/* the last slot asked for is really there (pointer checks) */
	VREACH();
}

static void insert_step(unsigned N, double *key, unsigned long *ent, double gk, unsigned long ge, double k, unsigned long e)
{
	PriQ pq = pq_arbitrary(N, key, ent);
	int gcount0 = pq_count(pq, gk, (PriQElt) ge);
	priqInsert(pq, k, (PriQElt) e);
	CHECK("priqInsert: one more entry", priqCount(pq) == N + 1);
	CHECK("priqInsert: slots suffice and only ever double", pq->argc <= pq->size && (pq->size == PQ_SIZE || pq->size == 2 * PQ_SIZE));
	CHECK("priqInsert: heap order kept", pq_heap_ordered(pq));
#ifndef CANARY_priq_insert
	CHECK("priqInsert: pairs' = pairs + {(k,e)} (ghost pair)",
	      pq_count(pq, gk, (PriQElt) ge) == gcount0 + ((PriQElt) ge == (PriQElt) e && pq_keybits(gk) == pq_keybits(k) ? 1 : 0));
#else	/* canary: the new pair replaces one already there */
	CHECK("priqInsert canary", pq_count(pq, gk, (PriQElt) ge) <= gcount0);
#endif
}

void h_priq_insert_step(void)
{
	ARBITRARY_QUEUE_INPUTS;
	INPUT(double, k); INPUT(unsigned long, e);
	unsigned N;
	ASSUME(k == k);
	for (N = PQ_NLO; N <= PQ_NHI; N++)
		if (n == N) insert_step(N, key, ent, gk, ge, k, e);
	VREACH();
}

static void extract_step(unsigned N, double *key, unsigned long *ent, double gk, unsigned long ge, unsigned g)
{
	PriQ pq = pq_arbitrary(N, key, ent);
	int gcount0 = pq_count(pq, gk, (PriQElt) ge);
	double k; PriQElt e; int was = 0; unsigned i;
	e = priqExtractMin(pq, &k);
	CHECK("priqExtractMin: one entry fewer", priqCount(pq) == N - 1);
	CHECK("priqExtractMin: heap order kept", pq_heap_ordered(pq));
	for (i = 0; i < N; i++) if ((PriQElt) ent[i] == e && pq_keybits(key[i]) == pq_keybits(k)) was++;
	CHECK("priqExtractMin: the returned (key, entry) was in the queue", was >= 1);
#ifndef CANARY_priq_extract
	CHECK("priqExtractMin: the returned key is a minimum (ghost entry)", k <= key[g]);
#else	/* canary: a max-queue */
	CHECK("priqExtractMin canary: maximum", k >= key[g]);
#endif
	CHECK("priqExtractMin: pairs' = pairs - {(k,e)} (ghost pair)",
	      pq_count(pq, gk, (PriQElt) ge) == gcount0 - ((PriQElt) ge == e && pq_keybits(gk) == pq_keybits(k) ? 1 : 0));
}

void h_priq_extract_step(void)
{
	ARBITRARY_QUEUE_INPUTS;
	INPUT(unsigned, g);
	unsigned N;
	ASSUME(n >= 1);		/* call sites: while (priqCount(q)) priqExtractMin(q, ..) */
	ASSUME(g < n);
	for (N = (PQ_NLO > 1 ? PQ_NLO : 1); N <= PQ_NHI; N++)
		if (n == N) extract_step(N, key, ent, gk, ge, g);
	VREACH();
}

static void peek_step(unsigned N, double *key, unsigned long *ent, double gk, unsigned long ge, unsigned g)
{
	PriQ pq = pq_arbitrary(N, key, ent);
	int gcount0 = pq_count(pq, gk, (PriQElt) ge);
	double k; PriQElt e; int was = 0; unsigned i;
	e = priqPeekMin(pq, &k);
	for (i = 0; i < N; i++) if ((PriQElt) ent[i] == e && pq_keybits(key[i]) == pq_keybits(k)) was++;
	CHECK("priqPeekMin: returns a pair of the queue with a minimum key", was >= 1 && k <= key[g]);
	CHECK("priqPeekMin: queue unchanged", priqCount(pq) == N && pq_count(pq, gk, (PriQElt) ge) == gcount0 && pq_heap_ordered(pq));
}

void h_priq_peek_step(void)
{
	ARBITRARY_QUEUE_INPUTS;
	INPUT(unsigned, g);
	unsigned N;
	ASSUME(n >= 1 && g < n);
	for (N = (PQ_NLO > 1 ? PQ_NLO : 1); N <= PQ_NHI; N++)
		if (n == N) peek_step(N, key, ent, gk, ge, g);
	VREACH();
}

/* ---- integration: insert n keys, extract n: keys come out non-decreasing, pairs are a permutation */
static void sort_n(unsigned N, double *key)
{
	int taken[PQ_MAXN]; unsigned i, j; double last = 0, k; PriQElt e; long id;
	PriQ pq = priqNew(1);		/* one slot: grows 1 -> 2 -> 4 -> .. through stoResize */
	for (i = 0; i < N; i++) {
		ASSUME(key[i] == key[i]);
		priqInsert(pq, key[i], (PriQElt) (long) (i + 1));
		taken[i] = 0;
	}
	CHECK("priq: count after the inserts", priqCount(pq) == N);
	for (j = 0; j < N; j++) {
		e = priqExtractMin(pq, &k);
		id = (long) e - 1;
		CHECK("priq: extracted entry is one that was inserted", 0 <= id && id < (long) N);
		if (0 <= id && id < (long) N) {
#ifndef CANARY_priq_sort
			CHECK("priq: extracted entry not extracted before, and comes with its own key", !taken[id] && key[id] == k);
#else		/* canary: entries come out in insertion order */
			CHECK("priq canary: FIFO", id == (long) j);
#endif
			taken[id] = 1;
		}
		CHECK("priq: extracted keys are non-decreasing", j == 0 || last <= k);
		last = k;
	}
	CHECK("priq: empty at the end", priqCount(pq) == 0);
}

void h_priq_sort(void)
{
	INPUT(unsigned, n);
	INPUT_ARR(double, key, PQ_MAXN);
	unsigned N;
	ASSUME(n <= PQ_MAXN);
	for (N = 0; N <= PQ_MAXN; N++)
		if (n == N) sort_n(N, key);
	VREACH();
}

#ifdef NATIVE_REPLAY
V_NATIVE_MAIN(ENTRY)
#endif
