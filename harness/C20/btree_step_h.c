/* C20 harnesses for the B-tree's NODE STEPS: btreeSplitChild, btreeUnsplitChild, btreeRotateDown, btreeRotateUp
 * (file-local in btree.c, reached by textual inclusion), for a minimum degree t that is a constant of the job --
 * t = 2, 3, 4 and 16 (= store.c's MixedBTreeT, the only t the compiler itself uses).
 *
 * Contract of every step, taken from the B-tree definition in btree.h and the comments above each function:
 *   the IN-ORDER SEQUENCE of the three-level fragment (x, its two affected children expanded, every other subtree an
 *   opaque pointer) is the same before and after; key counts change exactly as the comment says; leaf flag and t of
 *   a new node are right; nothing is written past part[2t-1] (resp. branch 2t) of any node.
 * Sortedness, key ranges of subtrees and the multiset of pairs are functions of that sequence, so they are preserved.
 * Preconditions are the call sites' (btreeInsertX, btreeDelete0): see each harness.
 * x: any key count the call site allows, any position i; children: leaf or not; keys, entries, grandchildren arbitrary. */
#include "vharness.h"
#ifndef BT_T
#define BT_T 2
#endif
/* struct btree ends in the struct hack `part[NARY]`, NARY = 10 "enough to quiet bounds checking CC's" (cport.h); the unit
 * allocates btreeNodeSize(t) = fullsizeof(struct btree, 2t, part) bytes whatever NARY is.  For the verifier the nominal
 * bound is raised to 2t + 2 (same bytes requested, same code): a node is then one TYPED object `struct btree` holding the
 * 2t parts the unit may use and two guard parts, instead of an untyped byte array accessed through casts. */
#include "axlgen.h"
#undef NARY
#define NARY (2 * BT_T + 2)
#include "btree.c"
#define V_STUB_BUG_UNREACHABLE
#define V_STUB_STO
#include "stubs.h"

#define T2      (2 * BT_T)
#define GUARD   ((BTreeKey) 0x6A6A6A6A6A6A6A6AUL)
/* a node: the 2t parts the unit may use, then guard parts (see NARY above) */
#define NPARTS     NARY
#define NODE_BYTES sizeof(struct btree)

static BTree g_fresh; static int g_nalloc, g_nfree; static BTree g_freed;
static BTree mk_node(void)
{
	BTree b = (BTree) malloc(NODE_BYTES); int q_;
#ifndef NATIVE_REPLAY
	__CPROVER_assume(b != 0);
#endif
	for (q_ = T2; q_ < NPARTS; q_++) { b->part[q_].key = GUARD; b->part[q_].entry = (BTreeElt) GUARD; b->part[q_].branch = (BTree) GUARD; }
	return b;
}
static BTree h_alloc(ULong nbytes)
{
	BTree b = mk_node();
	CHECK("node allocator: the unit asks for a node of 2t parts", nbytes == btreeNodeSize(BT_T) && nbytes + 2 * sizeof(struct btreePart) == sizeof(struct btree));
	g_fresh = b; g_nalloc++;
	return b;
}
static void h_free(BTree b) { g_freed = b; g_nfree++; }
static int guard_ok(BTree b)
{
	int q_, ok = 1;
	for (q_ = T2; q_ < NPARTS; q_++) if (b->part[q_].key != GUARD || b->part[q_].entry != (BTreeElt) GUARD || b->part[q_].branch != (BTree) GUARD) ok = 0;
	return ok;
}

/* symbolic content of one node: every key, entry and branch slot arbitrary.  Subtrees the step must not look into
 * are OPAQUE pointers: addresses inside a 64-byte object that is not a node (a tagged integer cast to a pointer
 * would make every dereference of a loaded branch an access to 'any address' for the verifier) */
static char g_opaque[64];
#define IN_NODE(x) \
	INPUT_ARR(BTreeKey, x##_k, T2); INPUT_ARR(unsigned long, x##_e, T2); INPUT_ARR(unsigned long, x##_b, T2); \
	INPUT(unsigned short, x##_n); INPUT(Bool, x##_leaf); \
	BTree x = mk_node(); \
	{ int q_; for (q_ = 0; q_ < T2; q_++) { x->part[q_].key = x##_k[q_]; x->part[q_].entry = (BTreeElt) x##_e[q_]; x->part[q_].branch = (BTree) (g_opaque + (x##_b[q_] & 63)); } } \
	x->nKeys = x##_n; x->isLeaf = (x##_leaf != 0); x->t = BT_T

/* in-order sequence of the fragment: x with the children at branch positions e0 and e1 (e1 = -1: only e0) expanded.
 * seq_at returns the length and delivers the token at the ghost position g (no arrays: one counter, one compare) */
struct tok { int kind; BTreeKey key; BTreeElt entry; BTree br; };	/* kind 1: pair, 2: opaque subtree, 3: leaf gap */
#define EMIT(k_, key_, ent_, br_) do { if (n == g) { out->kind = (k_); out->key = (key_); out->entry = (ent_); out->br = (br_); } n++; } while (0)
static int seq_at(BTree x, int e0, int e1, int g, struct tok *out)
{
	int j, m, n = 0;
	out->kind = 0; out->key = 0; out->entry = 0; out->br = 0;
	for (j = 0; j < T2; j++) if (j <= x->nKeys) {
		if (j == e0 || j == e1) {
			BTree c = x->part[j].branch;
			for (m = 0; m < T2; m++) if (m <= c->nKeys) {
				if (c->isLeaf) EMIT(3, 0, 0, (BTree) 0); else EMIT(2, 0, 0, c->part[m].branch);
				if (m < c->nKeys) EMIT(1, c->part[m].key, c->part[m].entry, (BTree) 0);
			}
		}
		else EMIT(2, 0, 0, x->part[j].branch);
		if (j < x->nKeys) EMIT(1, x->part[j].key, x->part[j].entry, (BTree) 0);
	}
	return n;
}
static int tok_eq(struct tok *a, struct tok *b) { return a->kind == b->kind && a->key == b->key && a->entry == b->entry && a->br == b->br; }
/* the fragment BEFORE the step: copies of the nodes, linked to each other */
static BTree copy_node(BTree b)
{
	BTree c = mk_node(); int q_;
	c->isLeaf = b->isLeaf; c->t = b->t; c->nKeys = b->nKeys;
	for (q_ = 0; q_ < T2; q_++) c->part[q_] = b->part[q_];
	return c;
}
#define SAME_SEQUENCE(x0_, a0_, a1_, x_, b0_, b1_) \
	(seq_at(x0_, a0_, a1_, g, &t0) == seq_at(x_, b0_, b1_, g, &t1) && tok_eq(&t0, &t1))

/* Position i and key count n of x are symbolic inputs, but each harness runs its body once per VALUE of them, with
 * that value as a constant (the for/if below): the unit's shifting loops then run over concrete indices.  Exactly one
 * case is live for given inputs; the union of the cases is the whole precondition. */

/* large t (16): one case per job, -DBT_ONLY_N/-DBT_ONLY_I/-DBT_ONLY_ZN select it (a sample of the cases, stated in the job's bound) */
#ifdef BT_ONLY_I
# ifndef BT_ONLY_N
#  define BT_ONLY_N 0
# endif
# ifndef BT_ONLY_ZN
#  define BT_ONLY_ZN 0
# endif
# define ONLY(cn, ci, cz) ((ci) == (BT_ONLY_I) && ((cn) == 0 || (cn) == (BT_ONLY_N)) && ((cz) == 0 || (cz) == (BT_ONLY_ZN)))
#else
# define ONLY(cn, ci, cz) 1
#endif

/* ---------------------------------------------------------------- split: x non-full, child i full */
static void split_case(int n, int i, int g)
{
	IN_NODE(x); IN_NODE(y);
	ASSUME(!x->isLeaf);
	x->nKeys = n;				/* btreeInsertX: x is non-full (a new root has 0 keys) */
	y->nKeys = T2 - 1;			/* the child is full */
	x->part[i].branch = y;
	BTree x0 = copy_node(x), y0 = copy_node(y); x0->part[i].branch = y0;
	struct tok t0, t1;
	Bool yleaf = y->isLeaf;
	g_nalloc = 0;
	btreeSplitChild(x, i, h_alloc);
	BTree z = g_fresh;
	CHECK("btreeSplitChild: exactly one node allocated and linked right of the child", g_nalloc == 1 && x->part[i].branch == y && x->part[i + 1].branch == z);
	CHECK("btreeSplitChild: x has one key more, both halves have t-1 keys", x->nKeys == n + 1 && y->nKeys == BT_T - 1 && z->nKeys == BT_T - 1);
	CHECK("btreeSplitChild: the new node has the child's leaf flag and t", (z->isLeaf != 0) == (yleaf != 0) && z->t == BT_T && (y->isLeaf != 0) == (yleaf != 0));
#ifndef CANARY_bt_split
	CHECK("btreeSplitChild: in-order sequence of the fragment unchanged (ghost position)", SAME_SEQUENCE(x0, i, -1, x, i, i + 1));
#else	/* canary: the median is dropped */
	CHECK("btreeSplitChild canary", seq_at(x, i, i + 1, g, &t1) == seq_at(x0, i, -1, g, &t0) - 1);
#endif
	CHECK("btreeSplitChild: no write past a node", guard_ok(x) && guard_ok(y) && guard_ok(z));
}
void h_bt_split(void)
{
	INPUT(int, n); INPUT(int, i); INPUT(int, g); int cn, ci;
	ASSUME(0 <= n && n <= T2 - 2 && 0 <= i && i <= n);
	for (cn = 0; cn <= T2 - 2; cn++) for (ci = 0; ci <= cn; ci++) if (ONLY(cn, ci, 0) && n == cn && i == ci) split_case(cn, ci, g);
	VREACH();
}

/* ---------------------------------------------------------------- unsplit: children i and i+1 have t-1 keys */
static void unsplit_case(int n, int i, int g)
{
	IN_NODE(x); IN_NODE(y); IN_NODE(z);
	ASSUME(!x->isLeaf && (y->isLeaf != 0) == (z->isLeaf != 0));
	x->nKeys = n; y->nKeys = BT_T - 1; z->nKeys = BT_T - 1;		/* both children are minimal */
	x->part[i].branch = y; x->part[i + 1].branch = z;
	BTree x0 = copy_node(x), y0 = copy_node(y), z0 = copy_node(z); x0->part[i].branch = y0; x0->part[i + 1].branch = z0;
	struct tok t0, t1;
	g_nfree = 0;
	btreeUnsplitChild(x, i, h_free);
	CHECK("btreeUnsplitChild: the right child is freed, once; the left one stays", g_nfree == 1 && g_freed == z && x->part[i].branch == y);
	CHECK("btreeUnsplitChild: x has one key fewer, the merged child is full", x->nKeys == n - 1 && y->nKeys == T2 - 1);
#ifndef CANARY_bt_unsplit
	CHECK("btreeUnsplitChild: in-order sequence of the fragment unchanged (ghost position)", SAME_SEQUENCE(x0, i, i + 1, x, i, -1));
#else	/* canary: the separator key is dropped */
	CHECK("btreeUnsplitChild canary", seq_at(x, i, -1, g, &t1) == seq_at(x0, i, i + 1, g, &t0) - 1);
#endif
	CHECK("btreeUnsplitChild: no write past a node", guard_ok(x) && guard_ok(y));
}
void h_bt_unsplit(void)
{
	INPUT(int, n); INPUT(int, i); INPUT(int, g); int cn, ci;
	ASSUME(1 <= n && n <= T2 - 1 && 0 <= i && i < n);
	for (cn = 1; cn <= T2 - 1; cn++) for (ci = 0; ci < cn; ci++) if (ONLY(cn, ci, 0) && n == cn && i == ci) unsplit_case(cn, ci, g);
	VREACH();
}

/* ---------------------------------------------------------------- rotations: one key through the parent
 * (x's key count plays no part in the unit's loops and stays symbolic; the donor's count zn is a case) */
static void rot_case(int up, int i, int zn, int g)
{
	IN_NODE(x); IN_NODE(y); IN_NODE(z);
	ASSUME(!x->isLeaf && x->nKeys <= T2 - 1 && i < x->nKeys && (y->isLeaf != 0) == (z->isLeaf != 0));
	y->nKeys = BT_T - 1; z->nKeys = zn;				/* the child is minimal, the donor sibling is not */
	BTree l = up ? z : y, r = up ? y : z;				/* RotateUp takes from the LEFT sibling, RotateDown from the right */
	x->part[i].branch = l; x->part[i + 1].branch = r;
	BTree x0 = copy_node(x), y0 = copy_node(y), z0 = copy_node(z); x0->part[i].branch = up ? z0 : y0; x0->part[i + 1].branch = up ? y0 : z0;
	struct tok t0, t1;
	int xn = x->nKeys;
	if (up) btreeRotateUp(x, i); else btreeRotateDown(x, i);
#ifndef CANARY_bt_rotup
	CHECK("btreeRotate*: one key moves from the sibling to the child, x keeps its count and its links",
	      x->nKeys == xn && y->nKeys == BT_T && z->nKeys == zn - 1 && x->part[i].branch == l && x->part[i + 1].branch == r);
#else	/* canary: the sibling keeps its count */
	CHECK("btreeRotate* canary", z->nKeys == zn);
#endif
	CHECK("btreeRotate*: in-order sequence of the fragment unchanged (ghost position)", SAME_SEQUENCE(x0, i, i + 1, x, i, i + 1));
	CHECK("btreeRotate*: no write past a node", guard_ok(x) && guard_ok(y) && guard_ok(z));
}
static void h_rot(int up)
{
	INPUT(int, i); INPUT(int, zn); INPUT(int, g); int ci, cz;
	ASSUME(0 <= i && i <= T2 - 2 && BT_T <= zn && zn <= T2 - 1);
	for (ci = 0; ci <= T2 - 2; ci++) for (cz = BT_T; cz <= T2 - 1; cz++) if (ONLY(0, ci, cz) && i == ci && zn == cz) rot_case(up, ci, cz, g);
	VREACH();
}
void h_bt_rotdown(void) { h_rot(0); }
void h_bt_rotup(void)   { h_rot(1); }

#ifdef NATIVE_REPLAY
V_NATIVE_MAIN(ENTRY)
#endif
