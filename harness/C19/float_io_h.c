/* C19: the float codecs as the object-file writer/reader and the runtime use them.
 *  - buffer.c bufWrSFloat/bufRdSFloat, bufWrDFloat/bufRdDFloat (real text included) over the real xfloat.c/util.c
 *  - foam_c.c fiSFloDissemble/fiSFloAssemble, fiDFloDissemble/fiDFloAssemble (linked) */
#define bug util_c_bug
#include "util.c"
#undef bug
extern void bug(String fmt, ...);	/* util.h was read under the rename above; buffer.c's bufMust() calls bug() */
#include "xfloat.c"
#include "buffer.c"
#include "vharness.h"
#define V_STUB_BUG_UNREACHABLE
#define V_STUB_STO
#include "stubs.h"
#include <string.h>
#include "foam_c.h"

#define F32_ISNAN(b) ((((b) >> 23) & 0xffu) == 0xffu && ((b) & 0x7fffffu) != 0)
#define F64_ISNAN(b) ((((b) >> 52) & 0x7ffUL) == 0x7ffUL && ((b) & 0xfffffffffffffUL) != 0)

void h_buf_sfloat(void)
{
	INPUT(unsigned, bits);
	float f, g; unsigned ob; Buffer b; Length p0;
	memcpy(&f, &bits, 4);
	b = bufNew();
	p0 = bufPosition(b);
	bufWrSFloat(b, f);
	CHECK("bufWrSFloat writes exactly XSFLOAT_BYTES", bufPosition(b) == p0 + XSFLOAT_BYTES);
	bufStart(b);
	g = bufRdSFloat(b);
	memcpy(&ob, &g, 4);
	CHECK("bufRdSFloat(bufWrSFloat(x)) has the bits of x, or both are NaN", F32_ISNAN(bits) ? F32_ISNAN(ob) : ob == bits);
	CHECK("bufRdSFloat consumes exactly XSFLOAT_BYTES", bufPosition(b) == XSFLOAT_BYTES);
	VREACH();
}

void h_buf_dfloat(void)
{
	INPUT(unsigned long, bits);
	double f, g; unsigned long ob; Buffer b; Length p0;
	memcpy(&f, &bits, 8);
	b = bufNew();
	p0 = bufPosition(b);
	bufWrDFloat(b, f);
	CHECK("bufWrDFloat writes exactly XDFLOAT_BYTES", bufPosition(b) == p0 + XDFLOAT_BYTES);
	bufStart(b);
	g = bufRdDFloat(b);
	memcpy(&ob, &g, 8);
	CHECK("bufRdDFloat(bufWrDFloat(x)) has the bits of x, or both are NaN", F64_ISNAN(bits) ? F64_ISNAN(ob) : ob == bits);
	CHECK("bufRdDFloat consumes exactly XDFLOAT_BYTES", bufPosition(b) == XDFLOAT_BYTES);
	VREACH();
}

/* runtime dissemble/assemble (the SFloDissemble/SFloAssemble builtins) */
void h_fi_sflo(void)
{
	INPUT(unsigned, bits);
	INPUT(unsigned long, junk);
	float f, g; unsigned ob; FiBool sign; FiSInt expon; FiWord sig0 = junk;
	memcpy(&f, &bits, 4);
	fiSFloDissemble(f, &sign, &expon, &sig0);
	g = fiSFloAssemble(sign, expon, sig0);
	memcpy(&ob, &g, 4);
	CHECK("fiSFloAssemble(fiSFloDissemble(x)) == x bit for bit", ob == bits);
	CHECK("fiSFloDissemble: sign is the sign bit", (sign != 0) == ((bits >> 31) != 0));
	VREACH();
}

void h_fi_dflo(void)
{
	INPUT(unsigned long, bits);
	double f, g; unsigned long ob; FiBool sign; FiSInt expon; FiWord sig0, sig1;
	memcpy(&f, &bits, 8);
	fiDFloDissemble(f, &sign, &expon, &sig0, &sig1);
	g = fiDFloAssemble(sign, expon, sig0, sig1);
	memcpy(&ob, &g, 8);
	CHECK("fiDFloAssemble(fiDFloDissemble(x)) == x bit for bit", ob == bits);
	CHECK("fiDFloDissemble: sign is the sign bit", (sign != 0) == ((bits >> 63) != 0));
	VREACH();
}

#ifdef NATIVE_REPLAY
V_NATIVE_MAIN(ENTRY)
#endif
