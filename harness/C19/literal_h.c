/* C19: "a decimal literal converted at compile time denotes the same value as the same literal converted by the
 * runtime".  Folder (real of_cfold.c + foam.c, included) against the runtime's fiArrToSFlo/fiArrToDFlo (real foam_c.c,
 * linked).  atof is an UNINTERPRETED function of the string's bytes (strings of <= 7 characters, class B). */
#include "foam.c"
#include "of_cfold.c"
#include "vharness.h"
#define V_STUB_BUG_UNREACHABLE
#define V_STUB_STO
#include "stubs.h"
#include <string.h>
#include "foam_c.h"

#ifndef NATIVE_REPLAY
double __CPROVER_uninterpreted_atof(char, char, char, char, char, char, char, char);
double (atof)(const char *s)
{
	char k[8] = {0, 0, 0, 0, 0, 0, 0, 0}; int i;
	for (i = 0; i < 8 && s[i]; i++) k[i] = s[i];
	__CPROVER_assert(i < 8, "CHECK literal harness: string handed to atof is NUL-terminated within 7 characters");
	return __CPROVER_uninterpreted_atof(k[0], k[1], k[2], k[3], k[4], k[5], k[6], k[7]);
}
#endif

static int v_same_f(float x, float y) { unsigned a, b; memcpy(&a, &x, 4); memcpy(&b, &y, 4); return a == b || ((x != x) && (y != y)); }
static int v_same_d(double x, double y) { unsigned long a, b; memcpy(&a, &x, 8); memcpy(&b, &y, 8); return a == b || ((x != x) && (y != y)); }

static Foam h_literal(int op, char *txt)
{
	INPUT(int, n);
	INPUT_ARR(char, c, 7);
	struct foamArr sa; struct foamBCall sb; Foam arr, bc; int i;
	ASSUME(n >= 0 && n <= 7);
	memset(&sa, 0, sizeof sa); memset(&sb, 0, sizeof sb);
	sa.hdr.tag = FOAM_Arr; sa.hdr.argc = n + 1; sa.baseType = FOAM_Char;
	for (i = 0; i < 7; i++) { if (i < n) { ASSUME(c[i] != 0); sa.eltv[i] = c[i]; txt[i] = c[i]; } else txt[i] = 0; }
	txt[7] = 0;
	arr = (Foam) malloc(sizeof sa); ASSUME(arr != 0); arr->foamArr = sa;
	sb.hdr.tag = FOAM_BCall; sb.hdr.argc = 2; sb.op = op; sb.argv[0] = arr;
	bc = (Foam) malloc(sizeof sb); ASSUME(bc != 0); bc->foamBCall = sb;
	foamIsInit = 1; cfoldFoldAll = 1; cfoldFoldFloat = 1;
	return bc;
}

void h_lit_sflo(void)
{
	char txt[8]; Foam bc = h_literal(FOAM_BVal_ArrToSFlo, txt), r;
	r = cfoldBCall(bc);
	CHECK("ArrToSFlo is folded to a single-float constant", r != bc && foamTag(r) == FOAM_SFlo);
	CHECK("folded ArrToSFlo == runtime fiArrToSFlo on the same characters", v_same_f(r->foamSFlo.SFloData, fiArrToSFlo((FiArr) txt)));
	VREACH();
}

void h_lit_dflo(void)
{
	char txt[8]; Foam bc = h_literal(FOAM_BVal_ArrToDFlo, txt), r;
	r = cfoldBCall(bc);
	CHECK("ArrToDFlo is folded to a double-float constant", r != bc && foamTag(r) == FOAM_DFlo);
#ifndef CANARY_lit
	CHECK("folded ArrToDFlo == runtime fiArrToDFlo on the same characters", v_same_d(r->foamDFlo.DFloData, fiArrToDFlo((FiArr) txt)));
#else	/* canary: claims the double constant equals the literal rounded through single precision */
	CHECK("canary: folded ArrToDFlo == (double) fiArrToSFlo", v_same_d(r->foamDFlo.DFloData, (double) fiArrToSFlo((FiArr) txt)));
#endif
	VREACH();
}

#ifdef NATIVE_REPLAY
V_NATIVE_MAIN(ENTRY)
#endif
