"""C19 jobs: floating point portable encoding, dissemble/assemble."""

ASSUMPTIONS = [
    "literal conversion: ArrToSInt/ArrToBInt are not checked here (the folder calls the runtime's own fiArrToSInt / bintFrString); decimal-to-binary correctness of atof itself is libc's",
    "native float/double are IEEE-754 binary32/binary64 (SF_/DF_ constants are read from the real cport.h, not restated)",
    "all loops in these harnesses are bounded by sizeof constants (<= 10); --unwind 12 with unwinding assertions, so a passing run is complete, not bounded",
]

UNW = ["--unwind", "12", "--unwinding-assertions"]


def jobs(tier):
    js = []
    def J(name, entry, fns, inputs, defs=(), kind="obligation", timeout=600, **kw):
        d = {"name": name, "src": "xfloat_h.c", "entry": entry, "functions": fns, "inputs": inputs,
             "defs": list(defs), "cbmc": UNW, "native": True, "cls": "P", "timeout": timeout, "kind": kind}
        d.update(kw)
        js.append(d)
    xsf = ["xsfFrNative", "xsfToNative", "sfDissemble", "sfAssemble", "xsfDissemble", "xsfAssemble",
           "fracNormalize", "fracDenormalize", "bfShiftUp", "bfShiftDn", "bfFirst1"]
    xdf = ["xdfFrNative", "xdfToNative", "dfDissemble", "dfAssemble", "xdfDissemble", "xdfAssemble",
           "fracNormalize", "fracDenormalize", "bfShiftUp", "bfShiftDn", "bfFirst1"]
    J("xfloat.xsf_roundtrip_all_2^32", "h_xsf_roundtrip", xsf, ["bits"])
    J("canary.xfloat.xsf_roundtrip", "h_xsf_roundtrip", xsf, ["bits"], defs=["-DCANARY_xsf"], kind="canary")
    for cls in ("ZERO_SUB", "NORMAL", "INFNAN"):
        J("xfloat.xdf_roundtrip_all_2^64." + cls.lower(), "h_xdf_roundtrip", xdf, ["bits"],
          defs=["-DXDF_CLASS_" + cls], timeout=1800)
    J("xfloat.sf_dissemble_assemble", "h_sf_dis_assemble", ["sfDissemble", "sfAssemble", "bfShiftUp", "bfShiftDn"], ["bits"])
    J("xfloat.df_dissemble_assemble", "h_df_dis_assemble", ["dfDissemble", "dfAssemble", "bfShiftUp", "bfShiftDn"], ["bits"])
    J("xfloat.xsf_dissemble_assemble", "h_xsf_dis_assemble", ["xsfDissemble", "xsfAssemble"], ["raw"])
    J("xfloat.xdf_dissemble_assemble", "h_xdf_dis_assemble", ["xdfDissemble", "xdfAssemble"], ["raw"])
    # the codecs as the object-file writer/reader (buffer.c) and the runtime (foam_c.c) use them
    IO = ["--unwind", "12", "--unwinding-assertions"]
    for nm, entry, fns in (
            ("buffer.bufWr_bufRd_SFloat_all_2^32", "h_buf_sfloat", ["bufWrSFloat", "bufRdSFloat", "bufAddn", "bufGetn", "bufNeed", "bufNew", "xsfFrNative", "xsfToNative"]),
            ("buffer.bufWr_bufRd_DFloat_all_2^64", "h_buf_dfloat", ["bufWrDFloat", "bufRdDFloat", "bufAddn", "bufGetn", "bufNeed", "bufNew", "xdfFrNative", "xdfToNative"]),
            ("foam_c.fiSFloDissemble_Assemble", "h_fi_sflo", ["fiSFloDissemble", "fiSFloAssemble", "sfDissemble", "sfAssemble"]),
            ("foam_c.fiDFloDissemble_Assemble", "h_fi_dflo", ["fiDFloDissemble", "fiDFloAssemble", "dfDissemble", "dfAssemble"])):
        js.append({"name": nm, "src": "float_io_h.c", "entry": entry, "functions": fns, "inputs": ["bits", "junk"],
                   "cbmc": IO, "native": True, "cls": "P", "timeout": 900, "link": ["foam_c.c"],
                   "assumed": ["allocator stub (stoAlloc/stoResize/stoSize: fresh block of exactly the requested size)"]})
    # literal conversion: compile-time folder against the runtime, atof uninterpreted (class B: <= 7 characters)
    for nm, entry, defs, kind in (("literal.fold_ArrToSFlo_equals_runtime", "h_lit_sflo", [], "obligation"),
                                  ("literal.fold_ArrToDFlo_equals_runtime", "h_lit_dflo", [], "obligation"),
                                  ("canary.literal.fold_ArrToDFlo", "h_lit_dflo", ["-DCANARY_lit"], "canary")):
        js.append({"name": nm, "src": "literal_h.c", "entry": entry, "defs": defs, "kind": kind,
                   "functions": ["cfoldBCall", "cfoldArrToString", "fiArrToSFlo", "fiArrToDFlo", "foamNewSFlo", "foamNewDFlo"],
                   "inputs": ["n", "c"], "cls": "B", "bound": "literals of <= 7 characters (every byte value)",
                   "checks": ["--no-standard-checks", "--no-malloc-may-fail"],
                   "cbmc": ["--object-bits", "14", "--unwind", "10", "--unwinding-assertions"], "timeout": 600,
                   "link": ["foam_c.c", "strops.c", "util.c:-Dbug=util_c_bug", "stdc.c:-D_do_assert=stdc_c_do_assert"],
                   "strict_nobody": True, "nobody_ok": [],
                   "assumed": ["atof is a deterministic function of the string's bytes (__CPROVER_uninterpreted_atof)", "allocator stub"]})
    return js
