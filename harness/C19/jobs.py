"""C19 jobs: floating point portable encoding, dissemble/assemble."""

ASSUMPTIONS = [
    "native float/double are IEEE-754 binary32/binary64 (SF_/DF_ constants are read from the real cport.h, not restated)",
    "all loops in these harnesses are bounded by sizeof constants (<= 10); --unwind 12 with unwinding assertions, so a passing run is complete, not bounded",
]

UNW = ["--unwind", "12", "--unwinding-assertions"]


def jobs(tier):
    js = []
    def J(name, entry, fns, inputs, defs=(), kind="obligation", timeout=600, **kw):
        d = {"name": name, "src": "xfloat_h.c", "entry": entry, "functions": fns, "inputs": inputs,
             "defs": list(defs), "cbmc": UNW, "native": True, "cls": "P", "timeout": timeout, "kind": kind}
        d.update(kw)
        js.append(d)
    xsf = ["xsfFrNative", "xsfToNative", "sfDissemble", "sfAssemble", "xsfDissemble", "xsfAssemble",
           "fracNormalize", "fracDenormalize", "bfShiftUp", "bfShiftDn", "bfFirst1"]
    xdf = ["xdfFrNative", "xdfToNative", "dfDissemble", "dfAssemble", "xdfDissemble", "xdfAssemble",
           "fracNormalize", "fracDenormalize", "bfShiftUp", "bfShiftDn", "bfFirst1"]
    J("xfloat.xsf_roundtrip_all_2^32", "h_xsf_roundtrip", xsf, ["bits"])
    J("canary.xfloat.xsf_roundtrip", "h_xsf_roundtrip", xsf, ["bits"], defs=["-DCANARY_xsf"], kind="canary")
    for cls in ("ZERO_SUB", "NORMAL", "INFNAN"):
        J("xfloat.xdf_roundtrip_all_2^64." + cls.lower(), "h_xdf_roundtrip", xdf, ["bits"],
          defs=["-DXDF_CLASS_" + cls], timeout=1800)
    J("xfloat.sf_dissemble_assemble", "h_sf_dis_assemble", ["sfDissemble", "sfAssemble", "bfShiftUp", "bfShiftDn"], ["bits"])
    J("xfloat.df_dissemble_assemble", "h_df_dis_assemble", ["dfDissemble", "dfAssemble", "bfShiftUp", "bfShiftDn"], ["bits"])
    J("xfloat.xsf_dissemble_assemble", "h_xsf_dis_assemble", ["xsfDissemble", "xsfAssemble"], ["raw"])
    J("xfloat.xdf_dissemble_assemble", "h_xdf_dis_assemble", ["xdfDissemble", "xdfAssemble"], ["raw"])
    return js
