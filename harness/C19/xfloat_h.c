/* C19 harnesses: the real xfloat.c and util.c (bit-field helpers) are included verbatim.
 * util.c's own bug() is renamed by macro so that reaching it is an obligation, not a silent abort. */
#define bug util_c_bug
#include "util.c"
#undef bug
#include "xfloat.c"
#include "vharness.h"
#define V_STUB_BUG_UNREACHABLE
#include "stubs.h"
#include <string.h>

#define F32_EXP(b)   (((b) >> 23) & 0xffu)
#define F32_FRAC(b)  ((b) & 0x7fffffu)
#define F32_ISNAN(b) (F32_EXP(b) == 0xffu && F32_FRAC(b) != 0)
#define F64_EXP(b)   (((b) >> 52) & 0x7ffUL)
#define F64_FRAC(b)  ((b) & 0xfffffffffffffUL)
#define F64_ISNAN(b) (F64_EXP(b) == 0x7ffUL && F64_FRAC(b) != 0)

/* property: "Every single-precision value survives the portable encoding unchanged (same bits,
 * including signed zero, subnormals and infinities; NaN stays NaN)" */
void h_xsf_roundtrip(void)
{
	INPUT(unsigned, bits);
	float f, g; XSFloat x; unsigned ob;
	memcpy(&f, &bits, 4);
	xsfFrNative(&x, &f);
	xsfToNative(&x, &g);
	memcpy(&ob, &g, 4);
#ifndef CANARY_xsf
	CHECK("xsf: ToNative(FrNative(x)) has the bits of x, or both are NaN", F32_ISNAN(bits) ? F32_ISNAN(ob) : ob == bits);
#else   /* canary: demands bit equality for NaN payloads too?  no -- demands the sign be dropped */
	CHECK("xsf canary", ob == (bits & 0x7fffffffu));
#endif
	VREACH();
}

void h_xdf_roundtrip(void)
{
	INPUT(unsigned long, bits);
#ifdef XDF_CLASS_ZERO_SUB
	ASSUME(F64_EXP(bits) == 0);
#endif
#ifdef XDF_CLASS_NORMAL
	ASSUME(F64_EXP(bits) != 0 && F64_EXP(bits) != 0x7ffUL);
#endif
#ifdef XDF_CLASS_INFNAN
	ASSUME(F64_EXP(bits) == 0x7ffUL);
#endif
	double f, g; XDFloat x; unsigned long ob;
	memcpy(&f, &bits, 8);
	xdfFrNative(&x, &f);
	xdfToNative(&x, &g);
	memcpy(&ob, &g, 8);
	CHECK("xdf: ToNative(FrNative(x)) has the bits of x, or both are NaN", F64_ISNAN(bits) ? F64_ISNAN(ob) : ob == bits);
	VREACH();
}

/* property: "taking a value apart into sign, exponent and fraction and reassembling it is the identity" */
void h_sf_dis_assemble(void)
{
	INPUT(unsigned, bits);
	float f, g; unsigned ob; Bool sign; int expon; UByte frac[sizeof(float)];
	memcpy(&f, &bits, 4);
	g = 0;
	sfDissemble(&f, &sign, &expon, frac, NULL);
	sfAssemble(&g, sign, expon, frac);
	memcpy(&ob, &g, 4);
	CHECK("sf: Assemble(Dissemble(x)) == x bit for bit", ob == bits);
	CHECK("sf: sign is the sign bit", (sign != 0) == ((bits >> 31) != 0));
	CHECK("sf: exponent is the biased field minus the excess", expon == (int) F32_EXP(bits) - SF_Excess);
	VREACH();
}

void h_df_dis_assemble(void)
{
	INPUT(unsigned long, bits);
	double f, g; unsigned long ob; Bool sign; int expon; UByte frac[sizeof(double)];
	memcpy(&f, &bits, 8);
	g = 0;
	dfDissemble(&f, &sign, &expon, frac, NULL);
	dfAssemble(&g, sign, expon, frac);
	memcpy(&ob, &g, 8);
	CHECK("df: Assemble(Dissemble(x)) == x bit for bit", ob == bits);
	CHECK("df: sign is the sign bit", (sign != 0) == ((bits >> 63) != 0));
	CHECK("df: exponent is the biased field minus the excess", expon == (int) F64_EXP(bits) - DF_Excess);
	VREACH();
}

/* portable form: xsfAssemble / xsfDissemble are inverse on every (sign, 15-bit exponent, 32-bit fraction) */
void h_xsf_dis_assemble(void)
{
	INPUT_ARR(UByte, raw, 6);
	XSFloat x, y; Bool sign; int expon; UByte frac[4]; int i;
	for (i = 0; i < 6; i++) XSF_UByte(&x, i) = raw[i];
	xsfDissemble(&x, &sign, &expon, frac);
	xsfAssemble(&y, sign, expon, frac);
	CHECK("xsf: Assemble(Dissemble(x)) == x byte for byte",
	      XSF_UByte(&y,0) == raw[0] && XSF_UByte(&y,1) == raw[1] && XSF_UByte(&y,2) == raw[2] &&
	      XSF_UByte(&y,3) == raw[3] && XSF_UByte(&y,4) == raw[4] && XSF_UByte(&y,5) == raw[5]);
	VREACH();
}

void h_xdf_dis_assemble(void)
{
	INPUT_ARR(UByte, raw, 10);
	XDFloat x, y; Bool sign; int expon; UByte frac[8]; int i, same = 1;
	for (i = 0; i < 10; i++) XDF_UByte(&x, i) = raw[i];
	xdfDissemble(&x, &sign, &expon, frac);
	xdfAssemble(&y, sign, expon, frac);
	for (i = 0; i < 10; i++) if (XDF_UByte(&y, i) != raw[i]) same = 0;
	CHECK("xdf: Assemble(Dissemble(x)) == x byte for byte", same);
	VREACH();
}

#ifdef NATIVE_REPLAY
V_NATIVE_MAIN(ENTRY)
#endif
