/* C10 harnesses: the real store.c is included verbatim (B-tree allocator configuration, the one the
 * normal build selects: no -D flags, STO_USE_BTREE, STO_DIVISION_BY_LOOKUP, asserts on). */
#ifdef NATIVE_REPLAY     /* the spliced loop clauses vanish when the same text is compiled natively */
#define __CPROVER_assigns(...)
#define __CPROVER_loop_invariant(...)
#define __CPROVER_decreases(...)
#endif
unsigned long g_k;      /* ghost index used by the spliced loop invariants (contracts/loops/store.json) */
#ifdef V_MODEL_SECTFOR     /* the renamed definition leaves store.c's later uses of _sectFor without a declaration */
struct Section; static struct Section *_sectFor(void *p);
#endif
#include "store.c"
#include "vharness.h"
#define V_STUB_BUG_UNREACHABLE
#include "stubs.h"
#include "c_store.h"    /* contracts and their ghost state (g_os_*) */

/* ---- operating-system layer (opsys.c) replaced: ASSUMPTIONS, see jobs.py ------------------ */
String osGetEnv(String name) { (void) name; return 0; }
struct osMemMap **osMemMap(int mask) { (void) mask; return 0; }
void osAllocAlignHint(unsigned a) { (void) a; }

/* The two osAlloc implementations of the tree, as an environment model:
 *   opsys.c (generic), os_unix.c/OS_NEXT: malloc(*pnbytes)  -- any address, *pnbytes unchanged;
 *   os_unix.c (sbrk):  address aligned to the hint given by osAllocAlignHint, *pnbytes >= request
 *                      (store.c never calls osFree, so no recycled odd-sized piece is ever handed back).
 * Either may fail (0).  The numeric address of an object base is a multiple of 2^56 in the verifier's
 * pointer encoding, so "a block at an address that is m modulo PgSize" is a block at offset m of an object. */
Pointer osAlloc(ULong *pnbytes)
{
	INPUT(int, os_fails);
	INPUT(int, os_is_sbrk);
	INPUT(ULong, os_misalign);
	INPUT(ULong, os_extra);
	char *blk;
#ifdef V_OS_REFUSES          /* table jobs: see jobs.py ASSUMPTIONS */
	os_fails = 1;
#endif
	if (os_fails) return 0;
	ASSUME(os_misalign < PgSize && os_extra <= PgSize);
#ifndef CANARY_os_unconstrained
	if (os_is_sbrk) os_misalign = 0; else os_extra = 0;
#endif
	g_os_req = *pnbytes;
	ASSUME(g_os_req <= V_OS_BLOCK_MAX);
	blk = (char *) malloc(g_os_req + 2 * PgSize);   /* room for os_extra and os_misalign */
	ASSUME(blk != 0);
	*pnbytes += os_extra;
	g_os_base = blk + os_misalign;
	g_os_size = *pnbytes;
	return (Pointer) g_os_base;
}

/* util.c's fill/test loops (byte-stepping, chunked) replaced by the library model: ASSUMPTION */
Pointer memlset(Pointer p, int c, ULong l) { memset(p, c, l); return p; }

/* ---- 0. byteGetIfCan: aligned, inside the OS block, as large as it says -------------------- */
void h_byteGetIfCan(void)
{
	INPUT(ULong, nbytes);
	INPUT(int, want_got);
	ULong got = 0;
	Pointer r;
	CONTRACT_PRE(PRE_byteGetIfCan(PgSize, nbytes, want_got ? &got : 0));
	r = byteGetIfCan(PgSize, nbytes, want_got ? &got : 0);
	CONTRACT_POST("c_byteGetIfCan.postcondition", POST_byteGetIfCan(PgSize, nbytes, want_got ? &got : 0, r));
	VREACH();
}

/* ---- 1. size-class tables after the real stoInit (real C initialisers of fixedSize[]) ------ */
void h_stoInit_sizefor(void)
{
	INPUT(Length, n);
	INPUT(Length, k);
	ASSUME(n <= FixedSizeMax && k < FixedSizeCount);
	(void) stoInit();
	CHECK("fixedSizeFor[n] >= n", POST_sizefor_ge(n));
	CHECK("fixedSizeFor[n] == fixedSize[fixedSizeIndexFor[n]]", POST_sizefor_index(n));
	CHECK("fixedSizeFor[n] is the smallest class >= n", POST_sizefor_smallest(n, k));
	CHECK("size classes: ascending, multiples of the strictest alignment, room for a free-list link, last is FixedSizeMax",
	      POST_sizeclasses(k));
	VREACH();
}

/* ---- 2. division by lookup ------------------------------------------------------------------ */
void h_stoInit_divtable(void)
{
	INPUT(Length, j);
	Length i, i2;
	ASSUME(j < PgSize);
	(void) stoInit();
	for (i = 0; i < FixedSizeCount; i++) {   /* every class, one at a time: the divisor is then a constant */
		CHECK("fixedSizeLog[i] consistent with fixedSize[i]", POST_sizelog(i));
		CHECK("stoDivTable[-(fixedSizeLog[i]+1)][j] == j / fixedSize[i]", POST_divtable(i, j));
		for (i2 = 0; i2 < FixedSizeCount; i2++)
			CHECK("classes with a table have different tables", POST_divtab_distinct(i, i2));
	}
	VREACH();
}

/* ---- 3. page search ------------------------------------------------------------------------- */
void h_pgmapFindFree(void)
{
	INPUT(Length, count);
	INPUT(Length, size);
	INPUT(int, last);
	INPUT(Length, k);
	int r;
	ASSUME(size <= V_PGMAP_MAX);
	pgMapSize = size;
#ifdef NATIVE_REPLAY
	pgMap = (PgInfo *) calloc(size ? size : 1, 1);     /* one member of the family: every page free */
#else
	pgMap = (PgInfo *) malloc(size ? size : 1);        /* arbitrary page kinds */
#endif
	ASSUME(pgMap != 0);
	pgmapFoundFreeLastTime = last;
	g_k = k;
	ASSUME(g_k < count);
	CONTRACT_PRE(PRE_pgmapFindFree(count));
	r = pgmapFindFree(count);
	CONTRACT_POST("c_pgmapFindFree.postcondition", POST_pgmapFindFree(count, r));
	VREACH();
}

/* One job per size class (-DV_CLASS=k, jobs.py runs k = 0..FixedSizeCount-1 and checks that count): the
 * quotient by a constant closes in seconds, twelve of them in one formula do not. */
#ifdef V_CLASS
#define V_FOR_CLASS(k)  for ((k) = V_CLASS; (k) == V_CLASS; (k)++)
#else
#define V_FOR_CLASS(k)  for ((k) = 0; (k) < FixedSizeCount; (k)++)
#endif
#define V_NCLASSES 12   /* jobs.py generates this many per-class jobs; checked against FixedSizeCount below */

/* ---- 4. section layout ---------------------------------------------------------------------- */
void h_sectQmCount(void)
{
	INPUT(Length, pageCount);
	Length k;
	ASSUME(pageCount >= 1 && pageCount < (1UL << 16));
	/* every quantum size a call site can pass: sectPrepare gets fixedSizeFor[n] (a class) or
	 * MixedSizeQuantum == FixedSizeMax (the last class); one class at a time, so the divisor is a constant */
	V_FOR_CLASS(k) {
		Length r = sectQmCount(pageCount, fixedSize[k]);
		CHECK("PRE_sectQmCount covers the class", PRE_sectQmCount(pageCount, fixedSize[k]));
		CHECK("c_sectQmCount.postcondition", POST_sectQmCount(pageCount, fixedSize[k], r));
	}
	CHECK("MixedSizeQuantum is the last class", MixedSizeQuantum == fixedSize[FixedSizeCount - 1]);
	CHECK("the per-class jobs cover every class", FixedSizeCount == V_NCLASSES);
	VREACH();
}

/* a one-page section of fixed pieces, as piecesGetFixed builds it: real stoInit tables, real sectPrepare */
void h_sectPrepare_fixed(void)
{
	INPUT(Length, q);       /* ghost piece number */
	INPUT(Length, off);     /* ghost byte offset inside piece q */
	Length k;
	(void) stoInit();
	V_FOR_CLASS(k) {                                /* every size class, one at a time */
		Length sz = fixedSize[k], d;
		Page *pg = (Page *) malloc(FixedSizePgGroup * PgSize);
		Section *x;
		ASSUME(pg != 0);
		x = sectPrepare(pg, FixedSizePgGroup, sz, true);
		d = (Length) ((char *) x->data - (char *) pg);
		CHECK("section header sits at the start of its first page", (char *) x == (char *) pg);
		CHECK("header records size, class and kind", x->qmSize == (short) sz && x->qmSize > 0 && x->qmSizeIndex == k && x->isFixed && x->pgCount == FixedSizePgGroup);
		CHECK("quantum count is sectQmCount and at least one", x->qmCount >= 1 && POST_sectQmCount(FixedSizePgGroup, sz, x->qmCount));
		CHECK("info bytes end before the data starts", LAYOUT_info_before_data(x, d));
		CHECK("data quanta end exactly at the end of the last page", LAYOUT_data_ends_at_page_end(x, d, FixedSizePgGroup));
		CHECK("first data quantum aligned for the most aligned type", LAYOUT_data_aligned(d));
		if (q < x->qmCount && off < sz) {
			CHECK("every piece is aligned for the most aligned type", (d + q * sz) % alignof(MostAlignedType) == 0);
			CHECK("quantum index by shift or by table equals the quotient, for every byte of every piece",
			      LAYOUT_qm_index(x, q * sz + off) == q);
			CHECK("every quantum starts out tagged free", x->info[q] == QmInfoMake0(QmFreeFirst));
		}
	}
	VREACH();
}

#ifdef V_MODEL_SECTFOR
static Section *g_the_section;
local Section *_sectFor(Pointer p) { (void) p; return g_the_section; }
#endif
/* stoRecode on a fixed-size block: exactly that block's info byte gets the new code (the block is found through the
 * real page map macros: the harness lays one prepared section at the start of a heap of FixedSizePgGroup pages) */
#ifdef V_MODEL_SECTFOR
void h_stoRecode_fixed(void)
{
	INPUT(Length, q);       /* the block that is recoded */
	INPUT(Length, g);       /* ghost: any other block */
	INPUT(unsigned, code);
	Length k;
	(void) stoInit();
	V_FOR_CLASS(k) {
		Length sz = fixedSize[k], i;
		Page *pg = (Page *) malloc(FixedSizePgGroup * PgSize);
		PgInfo *map = (PgInfo *) malloc(FixedSizePgGroup);
		Section *x; Pointer p, r; QmInfo before_g;
		ASSUME(pg != 0 && map != 0);
		x = sectPrepare(pg, FixedSizePgGroup, sz, true);
		heapStart = (char *) pg; heapEnd = heapStart + FixedSizePgGroup * PgSize;
		pgMap = map; pgMapSize = FixedSizePgGroup;
		/* every page is marked "follow", so the sectFor() macro takes its slow path, _sectFor(), whose DEFINITION is
		 * renamed on every run (splice _rename_def) and modelled below: it returns the one section of the heap */
		for (i = 0; i < FixedSizePgGroup; i++) map[i] = PgBusyFollow;
		g_the_section = x;
		stoIsInit = 1; stoMustTag = true;
		ASSUME(q < x->qmCount && g < x->qmCount && g != q && code <= QmCodeMask);
		p = (Pointer) ((char *) x->data + q * sz);
		before_g = x->info[g];
		CHECK("harness: the block lies in the harness heap", isInHeap(p));
		CHECK("harness: page map sends the block to the slow path", pgMap[pgNo(p)] != PgBusyFirst);
		CHECK("harness: the section model answers", _sectFor(p) == x);
		r = stoRecode(p, code);
		CHECK("stoRecode returns its argument", r == p);
		CHECK("stoRecode: the block's own info byte carries the new code", QmInfoCode(x->info[q]) == code);
		CHECK("stoRecode: no other block's info byte changes", x->info[g] == before_g);
	}
	VREACH();
}
#endif

/* a mixed section of any admissible number of pages, as pieceGetMixed builds it */
void h_sectPrepare_mixed(void)
{
	INPUT(Length, npages);
	INPUT(Length, k);
	Page *pg;
	Section *x;
	ASSUME(npages >= MixedSizePgGroup && npages <= V_NPAGES_MAX);
	pg = (Page *) malloc(npages * PgSize);
	ASSUME(pg != 0);
	g_k = k;
	CONTRACT_PRE(PRE_sectPrepare(pg, npages, (Length) MixedSizeQuantum, false));
	x = sectPrepare(pg, npages, (Length) MixedSizeQuantum, false);
	CONTRACT_POST("c_sectPrepare.postcondition", POST_sectPrepare(pg, npages, (Length) MixedSizeQuantum, false, x));
	CONTRACT_POST("c_sectPrepare.postcondition pgCount", POST_sectPrepare_pgCount(npages, x));
	VREACH();
}

/* the page count in the header, for every npages sectPrepare's own assert admits; collection switched off
 * through the real stoCtl (as axlcomp.c does), so nothing is tagged and sectPrepare has no long loop */
void h_sectPrepare_pgCount(void)
{
	INPUT(Length, npages);
	Page *pg;
	Section *x;
	ASSUME(npages >= MixedSizePgGroup && npages < (1UL << 16));
	(void) stoCtl(StoCtl_GcLevel, StoCtl_GcLevel_Never);
	pg = (Page *) malloc(npages * PgSize);
	ASSUME(pg != 0);
	x = sectPrepare(pg, npages, (Length) MixedSizeQuantum, false);
	CHECK("sectPrepare header pgCount equals npages", POST_sectPrepare_pgCount(npages, x));
	VREACH();
}

#ifdef NATIVE_REPLAY
V_NATIVE_MAIN(ENTRY)
#endif
