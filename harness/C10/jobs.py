"""C10 jobs: lemmas the storage manager rests on, proved on the real store.c."""

ASSUMPTIONS = [
    "configuration: the normal build of store.c (no -D flags): STO_USE_BTREE, STO_DIVISION_BY_LOOKUP, STO_SECT_AND_PAGE_OF, asserts on (#undef NDEBUG)",
    "OS layer (osAlloc) modelled after the tree's two implementations: malloc-like (any address, *pnbytes unchanged) or "
    "sbrk-like (address aligned to the osAllocAlignHint hint, *pnbytes >= request, at most one page more); either may fail; "
    "store.c never calls osFree, so no recycled odd-sized piece comes back. canary.store.byteGetIfCan_os_unconstrained shows "
    "that an OS which both misaligns and over-delivers would break byteGetIfCan's size report",
    "numeric addresses: an object base is a multiple of 2^56 in the verifier's pointer encoding, hence page aligned; "
    "a block at an address that is m modulo PgSize is modelled as offset m of an object",
    "osGetEnv returns 0 (no GC_* environment overrides), osMemMap returns 0, osAllocAlignHint is a no-op",
    "util.c memlset (wash fill) replaced by the library memset model in harnesses that reach it",
    "table and fixed-section jobs run the real stoInit with the OS refusing memory (V_OS_REFUSES): a pointer that went through "
    "byteGetIfCan's ptrToLong/ptrFrLong round trip cannot be dereferenced by the verifier (it lands in __CPROVER_memory); "
    "stoInit's table loops come after, and do not read, the page-map set-up. Those jobs drop --pointer-check because stoInit "
    "then evaluates (char*)NULL - (char*)NULL in pgmapMod (count 0, nothing written), which is outside C10",
    "dfcc jobs (byteGetIfCan, pgmapFindFree, sectPrepare_mixed) start from ARBITRARY values of every static of store.c "
    "(goto-instrument --dfcc makes statics nondeterministic); what they need is stated in their requires clauses: "
    "0 <= pgmapFoundFreeLastTime <= pgMapSize <= 2^30, and fixedSizeIndexFor[] < FixedSizeCount (proved on stoInit by stoInit_sizefor)",
    "byteGetIfCan: requests are whole pages and at most 2^48 bytes (its two call sites pass PgSize * npages)",
    "pgmapFindFree: count < 2^30 and page map <= 2^30 pages (the function indexes with int); the unbounded variant "
    "store.pgmapFindFree_any_count is kept and FAILS for count >= 2^32 (genuine: int truncation of i+count)",
    "btree.c node steps (split, merge, rotations) at t = 16: a sample of (key count, position) cases, one per job; whole "
    "insert/delete histories of the free-piece tree and its use by pieceGetMixed/piecePutMixed are NOT decided here (C20 has t = 2 trees of height 2)",
    "sectPrepare: npages <= 32767 (what the short header field pgCount can hold); store.sectPrepare_pgCount_upto_own_assert "
    "is kept and FAILS for 32768 <= npages < 65536, which the function's own assert admits (genuine)",
]

# stoInit's loops are all bounded by compile-time constants (12 classes, 257 sizes, PgSize=4096 offsets, OB_MAX=256);
# per-cell field sensitivity lets the 6x4096 constant stores fold instead of building 24576 array versions
UNW_INIT = ["--unwind", "4100", "--unwinding-assertions", "--max-field-sensitivity-array-size", "4100"]
# table jobs run with the OS refusing memory: the only pointers are NULL, and stoInit then evaluates
# pgNo(NULL) = (NULL - NULL) >> 12 in pgmapMod (count 0, nothing written), which --pointer-check flags as
# pointer arithmetic on NULL; that path is outside C10, so these jobs keep bounds and division checks only
CHK_TABLES = ["--no-standard-checks", "--no-malloc-may-fail", "--bounds-check", "--div-by-zero-check"]

def jobs(tier):
    js = []
    def J(name, entry, fns, inputs, **kw):
        d = {"name": name, "src": "store_h.c", "entry": entry, "functions": fns, "inputs": inputs,
             "cls": "P", "timeout": 300, "kind": "obligation"}
        d.update(kw)
        js.append(d)
    J("store.byteGetIfCan", "h_byteGetIfCan", ["byteGetIfCan"], ["nbytes", "want_got"],
      enforce=["byteGetIfCan/c_byteGetIfCan"])
    J("store.stoInit_sizefor", "h_stoInit_sizefor", ["stoInit"], ["n", "k"], defs=["-DV_OS_REFUSES"], cbmc=UNW_INIT, checks=CHK_TABLES)
    J("store.stoInit_divtable", "h_stoInit_divtable", ["stoInit"], ["j", "i"], defs=["-DV_OS_REFUSES"], cbmc=UNW_INIT, checks=CHK_TABLES)
    LOOPS = {"splice": {"store.c": "store.json"}, "loops": True}
    NCLASSES = 12   # == V_NCLASSES in store_h.c, which is checked against FixedSizeCount in every sectQmCount job
    U12 = ["--unwind", "13", "--unwinding-assertions"]
    for k in range(NCLASSES):
        J("store.sectQmCount.class%d" % k, "h_sectQmCount", ["sectQmCount"], ["pageCount"], native=True, cbmc=U12,
          defs=["-DV_CLASS=%d" % k], timeout=120)
        J("store.sectPrepare_fixed_layout.class%d" % k, "h_sectPrepare_fixed", ["stoInit", "sectPrepare", "sectQmCount"],
          ["q", "off"], defs=["-DV_OS_REFUSES", "-DV_CLASS=%d" % k], cbmc=UNW_INIT, checks=CHK_TABLES)
    # stoRecode: the block -> section step (_sectFor) is modelled, the index computation and the tag write are the real code
    # classes 1 (16 bytes: index by shift) and 2 (24 bytes: index by table) in quick, the other ten in thorough (~2-4 min each)
    for k in ((1, 2) if tier != "thorough" else range(12)):
        J("store.stoRecode_fixed.class%d" % k, "h_stoRecode_fixed", ["stoRecode", "sectPrepare", "stoInit"],
          ["q", "g", "code"], defs=["-DV_OS_REFUSES", "-DV_CLASS=%d" % k, "-DV_MODEL_SECTFOR"], cbmc=UNW_INIT, checks=CHK_TABLES, timeout=900,
          splice={"store.c": {"_rename_def": {"_sectFor": "_sectFor__real"}}},
          assumed=["_sectFor (page-map walk from an address to its section) is replaced by a model returning the one section of the harness heap; its definition is renamed mechanically on every run"])
    J("canary.store.sectQmCount", "h_sectQmCount", ["sectQmCount"], ["pageCount"], kind="canary",
      defs=["-DCANARY_sectQmCount", "-DV_CLASS=4"], cbmc=U12)
    J("canary.store.sectPrepare_fixed_layout", "h_sectPrepare_fixed", ["stoInit", "sectPrepare", "sectQmCount"], ["q", "off"],
      kind="canary", defs=["-DV_OS_REFUSES", "-DCANARY_layout", "-DV_CLASS=4"], cbmc=UNW_INIT, checks=CHK_TABLES)
    J("store.pgmapFindFree", "h_pgmapFindFree", ["pgmapFindFree"], ["count", "size", "last", "k"], native=True,
      enforce=["pgmapFindFree/c_pgmapFindFree"], **LOOPS)
    J("store.pgmapFindFree_any_count", "h_pgmapFindFree", ["pgmapFindFree"], ["count", "size", "last", "k"], native=True,
      defs=["-DV_COUNT_ANY"], enforce=["pgmapFindFree/c_pgmapFindFree"], **LOOPS)
    J("canary.store.pgmapFindFree", "h_pgmapFindFree", ["pgmapFindFree"], ["count", "size", "last", "k"],
      kind="canary", defs=["-DCANARY_pgmapFindFree"], enforce=["pgmapFindFree/c_pgmapFindFree"], **LOOPS)
    MIXED = dict(enforce=["sectPrepare/c_sectPrepare"], cbmc=["--unwind", "5", "--unwinding-assertions"], **LOOPS)
    J("store.sectPrepare_mixed_layout", "h_sectPrepare_mixed", ["sectPrepare", "sectQmCount"], ["npages", "k"], native=True, **MIXED)
    # the header's page count over everything sectPrepare's own assert admits: fails on the pinned tree (finding)
    J("store.sectPrepare_pgCount_upto_own_assert", "h_sectPrepare_pgCount", ["sectPrepare"], ["npages"], native=True,
      cbmc=["--unwind", "5", "--unwinding-assertions"])
    if tier == "thorough":   # the same through the full contract (slow: all layout obligations up to 65535 pages)
        J("store.sectPrepare_mixed_layout_npages_upto_own_assert", "h_sectPrepare_mixed", ["sectPrepare", "sectQmCount"],
          ["npages", "k"], native=True, defs=["-DV_NPAGES_ASSERT"], timeout=1500, **MIXED)
    J("canary.store.sectPrepare_mixed_layout", "h_sectPrepare_mixed", ["sectPrepare", "sectQmCount"], ["npages", "k"],
      kind="canary", defs=["-DCANARY_layout"], **MIXED)
    J("canary.store.sizefor_smallest", "h_stoInit_sizefor", ["stoInit"], ["n", "k"], kind="canary",
      defs=["-DV_OS_REFUSES", "-DCANARY_sizefor"], cbmc=UNW_INIT, checks=CHK_TABLES)
    J("canary.store.divtable", "h_stoInit_divtable", ["stoInit"], ["j", "i"], kind="canary",
      defs=["-DV_OS_REFUSES", "-DCANARY_divtable"], cbmc=UNW_INIT, checks=CHK_TABLES)
    J("canary.store.byteGetIfCan", "h_byteGetIfCan", ["byteGetIfCan"], ["nbytes", "want_got"], kind="canary",
      defs=["-DCANARY_byteGetIfCan"], enforce=["byteGetIfCan/c_byteGetIfCan"])
    J("canary.store.byteGetIfCan_os_unconstrained", "h_byteGetIfCan", ["byteGetIfCan"], ["nbytes", "want_got"],
      kind="canary", defs=["-DCANARY_os_unconstrained"], enforce=["byteGetIfCan/c_byteGetIfCan"])
    # ---- the free-piece B-tree (btree.c, t = MixedBTreeT = 16): node steps against the in-order-sequence contract.
    # The harness is C20's (harness/C20/btree_step_h.c, see there); C10 depends on the same unit through
    # mixedPieces, so the t = 16 cases are obligations of this check too.
    BCHK = ["--no-standard-checks", "--no-malloc-may-fail", "--pointer-check", "--div-by-zero-check"]
    SIN = ["x_k", "x_e", "x_b", "x_n", "x_leaf", "y_k", "y_e", "y_b", "y_n", "y_leaf", "z_k", "z_e", "z_b", "z_n", "z_leaf", "n", "i", "zn", "g"]
    T16 = {"split": [(30, 0, 0), (30, 30, 0), (0, 0, 0), (30, 15, 0), (15, 7, 0)],
           "unsplit": [(31, 0, 0), (31, 30, 0), (1, 0, 0), (31, 15, 0)],
           "rotdown": [(0, 0, 16), (0, 30, 16), (0, 0, 31), (0, 30, 31), (0, 15, 20)],
           "rotup": [(0, 0, 16), (0, 30, 16), (0, 0, 31), (0, 30, 31), (0, 15, 20)]}
    FN = {"split": "btreeSplitChild", "unsplit": "btreeUnsplitChild", "rotdown": "btreeRotateDown", "rotup": "btreeRotateUp"}
    for nm in ("split", "unsplit", "rotdown", "rotup"):
        for (cn, ci, cz) in (T16[nm] if tier == "thorough" else T16[nm][:2]):
            js.append({"name": "btree.step.%s.t16.n%d_i%d_zn%d" % (nm, cn, ci, cz), "src": "../C20/btree_step_h.c", "entry": "h_bt_" + nm,
                       "functions": [FN[nm]], "inputs": SIN, "cls": "B", "kind": "obligation", "native": True, "checks": BCHK,
                       "bound": "t = 16, ONE case: x has %s keys, position %d, donor sibling has %s keys; any keys/entries/subtrees" % (cn or "any number of", ci, cz or "-"),
                       "defs": ["-DBT_T=16", "-DBT_ONLY_N=%d" % cn, "-DBT_ONLY_I=%d" % ci, "-DBT_ONLY_ZN=%d" % cz],
                       "cbmc": ["--unwind", "35", "--unwinding-assertions"], "timeout": 900})
    js.append({"name": "canary.btree.step.unsplit", "src": "../C20/btree_step_h.c", "entry": "h_bt_unsplit", "functions": [], "inputs": ["i", "g"],
               "cls": "B", "kind": "canary", "checks": BCHK, "defs": ["-DBT_T=2", "-DCANARY_bt_unsplit"],
               "cbmc": ["--unwind", "16", "--unwinding-assertions"], "timeout": 600})
    return js
