"""C17 jobs: damaged library files are refused, never silently used.
buffer.c readers, lib.c header/section readers, foam.c decoder, archive.c name table -- each on arbitrary bytes."""

ASSUMPTIONS = [
    "refusal = bug()/_do_assert() reached (ghost g_diag set, path ends: the real ones print and abort()) or a failure value returned",
    "buffer.rd.* class P jobs: argv is an object of exactly argc bytes for EVERY argc <= 2^47 (the target's user address space; CBMC's object-size limit is 2^55), any pos, any contents; any access at or beyond argc is reported by --pointer-check. Class B jobs cap argc as their bound says",
    "allocator model (contracts/c_buffer.h, C_BUFFER_STO_REFUSING): stoAlloc(0) == NULL as in store.c; a request above 2^47 bytes is refused with a diagnostic (store.c -> compStoreError -> comsgFatal); otherwise fresh non-NULL memory of exactly the requested size; stoSize = that size; stoFree is a no-op",
    "case splits (n_below_2^63 / n_wraps, terminated / unterminated, len_nonneg / len_negative, lengths_nonneg / length_negative): the two halves are separate jobs and together cover the whole input space; the hostile half is expected to be refused on every path",
]

BUF_IN = ["argc", "pos", "data"]


def jobs(tier):
    js = []

    def J(name, src, entry, fns, inputs, cls="P", kind="obligation", timeout=120, **kw):
        d = {"name": name, "src": src, "entry": entry, "functions": fns, "inputs": inputs,
             "native": True, "cls": cls, "timeout": timeout, "kind": kind}
        d.update(kw)
        js.append(d)

    # ---- (a) buffer.c readers ---------------------------------------------------------------------
    # loop-free readers: enforced by dfcc for EVERY buffer: argc <= 2^47 (the address space), any pos, any contents
    RD = [("bufSetPosition", ["n"]), ("bufGet1", []), ("bufGetByte", []), ("bufGetHInt", []), ("bufGetSInt", []),
          ("bufRdUByte", []), ("bufRdUShort", []), ("bufRdULong", [])]
    for fn, extra in RD:
        J("buffer.rd." + fn, "buffer_rd_h.c", "h_" + fn, [fn], BUF_IN + extra, enforce=["%s/c_%s" % (fn, fn)])
    # untrusted counts: case split on n (together = every n)
    for fn in ("bufSkip", "bufGetn"):
        J("buffer.rd.%s.n_below_2^63" % fn, "buffer_rd_h.c", "h_" + fn, [fn], BUF_IN + ["n"],
          defs=["-DV_N_PLAUSIBLE"], enforce=["%s/c_%s" % (fn, fn)])
        J("buffer.rd.%s.n_wraps" % fn, "buffer_rd_h.c", "h_" + fn, [fn], BUF_IN + ["n"], cls="B", bound="argc<=64",
          defs=["-DV_N_WRAPS", "-DV_ARGC_MAX=64"], enforce=["%s/c_%s" % (fn, fn)])
    for fn in ("bufSkip", "bufGetByte", "bufGetHInt", "bufGetSInt"):
        J("canary.buffer.rd." + fn, "buffer_rd_h.c", "h_" + fn, [fn], BUF_IN, kind="canary",
          defs=["-DCANARY_" + fn, "-DV_N_PLAUSIBLE"], enforce=["%s/c_%s" % (fn, fn)])
    # float readers: frame only (xsfToNative/xdfToNative are C19's)
    for fn in ("bufRdSFloat", "bufRdDFloat"):
        J("buffer.rd." + fn, "buffer_rd_h.c", "h_" + fn, [fn, "bufGetn"], BUF_IN, assumed=["xsfToNative/xdfToNative: no body here (C19 owns them)"])
    # readers with library loops (strlen/strncpy) and allocation: bounded in argc, case split per hostile class
    SMALL = ["-DV_ARGC_MAX=16"]
    LIBLOOPS = "strlen.0:20,strncpy.0:20,strcpy.0:20,memchr.0:20"
    UNW = ["--unwindset", LIBLOOPS, "--unwinding-assertions"]
    UNW_NOASSERT = ["--unwindset", LIBLOOPS]   # must-refuse classes: the hostile path may run a library loop 2^64 times
    B16 = "argc<=16 (pos, contents symbolic)"
    for fn in ("bufGets", "bufGetString"):
        J("buffer.rd.%s.terminated" % fn, "buffer_rd_h.c", "h_" + fn, [fn], BUF_IN + ["gi"], cls="B", bound=B16,
          defs=SMALL + ["-DV_TERMINATED"], cbmc=UNW)
        J("buffer.rd.%s.unterminated" % fn, "buffer_rd_h.c", "h_" + fn, [fn], BUF_IN + ["gi"], cls="B", bound=B16,
          defs=SMALL + ["-DV_UNTERMINATED"], cbmc=UNW_NOASSERT)
    J("buffer.rd.bufGetChars", "buffer_rd_h.c", "h_bufGetChars", ["bufGetChars", "bufGetn"], BUF_IN + ["cc", "gi"], cls="B",
      bound=B16 + ", cc<=16", defs=SMALL, cbmc=UNW)
    J("buffer.rd.bufRdChars.cc_nonneg", "buffer_rd_h.c", "h_bufRdChars", ["bufRdChars", "bufGetChars", "bufGetn", "strAlloc"],
      BUF_IN + ["cc", "gi"], cls="B", bound=B16, defs=SMALL + ["-DV_CC_NONNEG"], cbmc=UNW)
    J("buffer.rd.bufRdChars.cc_negative", "buffer_rd_h.c", "h_bufRdChars", ["bufRdChars", "bufGetChars", "bufGetn", "strAlloc"],
      BUF_IN + ["cc", "gi"], cls="B", bound=B16, defs=SMALL + ["-DV_CC_NEG"], cbmc=UNW_NOASSERT)
    for fn in ("bufRdString", "bufRdBuffer"):
        J("buffer.rd.%s.len_nonneg" % fn, "buffer_rd_h.c", "h_" + fn, [fn, "bufGetSInt", "bufGetChars", "bufGetn", "strAlloc"],
          BUF_IN + ["gi"], cls="B", bound=B16, defs=SMALL + ["-DV_CC_NONNEG"], cbmc=UNW)
        J("buffer.rd.%s.len_negative" % fn, "buffer_rd_h.c", "h_" + fn, [fn, "bufGetSInt", "bufGetChars", "bufGetn", "strAlloc"],
          BUF_IN + ["gi"], cls="B", bound=B16, defs=SMALL + ["-DV_CC_NEG"], cbmc=UNW_NOASSERT)

    # ---- (b) lib.c header and section readers (plain cbmc: lib.c's static initialisers must survive) -------------
    LIBUNW = ["--unwindset", "libChkHeader.0:19,libChkHeader.1:19", "--unwinding-assertions"]   # 19 > LIB_INDEX_LIMIT: constant bound
    LIBASS = ["fnameUnparseStaticWithout stubbed (diagnostic text only)", "comsgError records and returns; comsgFatal does not return",
              "file model: fseek sets the position, fread delivers min(requested, bytes left) and returns that count"]
    HDR_IN = ["magic", "vmaj", "vmin", "nsect", "nm", "off", "len", "idx", "gi"]
    J("lib.libChkHeader.any_header", "lib_h.c", "h_libChkHeader", ["libChkHeader"], HDR_IN, cbmc=LIBUNW, assumed=LIBASS)
    J("canary.lib.libChkHeader", "lib_h.c", "h_libChkHeader", ["libChkHeader"], HDR_IN, kind="canary",
      defs=["-DCANARY_libChkHeader"], cbmc=LIBUNW)
    J("lib.libGetHeader.any_file.memory_safety_and_index_map", "lib_h.c", "h_libGetHeader",
      ["libGetHeader", "libChkHeader", "libNewHeader", "bufCapture", "bufGetHInt", "bufGetSInt", "bufGetByte", "strAlloc"],
      ["img", "flen", "gi"], defs=["-DV_ONLY_SAFETY"], cbmc=LIBUNW, assumed=LIBASS)
    J("lib.libGetHeader.any_file.verdict_reaches_caller", "lib_h.c", "h_libGetHeader",
      ["libGetHeader", "libChkHeader"], ["img", "flen", "gi"], cbmc=LIBUNW, assumed=LIBASS)
    SEC_IN = ["img", "flen", "nsect", "nm", "off", "len", "name", "stat"]
    SEC_FN = ["libGetSection", "libHasSection", "bufCapture", "bufNeed", "bufNew", "strAlloc"]
    SEC_B = "file image <= 200 bytes (header fields, section name, static/fresh buffer symbolic)"
    J("lib.libGetSection.file_holds_section", "lib_h.c", "h_libGetSection", SEC_FN, SEC_IN, cls="B", bound=SEC_B,
      defs=["-DV_FILE_HOLDS_SECTION"], assumed=LIBASS)
    J("lib.libGetSection.any_file", "lib_h.c", "h_libGetSection", SEC_FN, SEC_IN, cls="B", bound=SEC_B, assumed=LIBASS)

    # ---- (c) foam.c decoders on arbitrary bytes: one job per value of the FIRST byte (tag + format) -----------------
    rows = foam_rows()
    vstart = [n for n, _, _ in rows].index("FOAM_Unimp")          # FOAM_VECTOR_START (foam.h: FOAM_Unimp = FOAM_VECTOR_START)
    limit = len(rows)                                              # FOAM_LIMIT
    span = limit - vstart
    DEC_B = "buffer <= 24 bytes, argc symbolic (truncation), first byte fixed per job (all 256 values are jobs), no code children"
    DEC_ASS = ["xsfToNative/xdfToNative stubbed under CBMC (C19 owns them)", "bytes between argc and the 24-byte object are excluded by the buffer.rd.* contracts, not by the pointer check (see foam_dec_h.c)",
               "labelFmt (file static) is 0 or 1, as FOAM_FORMAT_FOR leaves it"]
    D0_UNW = ["--object-bits", "12", "--unwindset", "foamFrBuffer0.0:26,foamFrBuffer0:2,v_spec_len.0:26", "--unwinding-assertions"]
    D0_UNW_NA = ["--object-bits", "12", "--unwindset", "foamFrBuffer0.0:26,foamFrBuffer0:2,v_spec_len.0:26"]
    D_UNW = ["--object-bits", "12", "--unwindset",
             "foamFrBuffer.0:14,foamFrBuffer.1:26,foamFrBuffer:2,v_spec_len.0:26,foamNewEmpty.0:26,strncpy.0:26,bintFrPlacevS.0:14", "--unwinding-assertions"]
    D_UNW_NA = [x for x in D_UNW if x != "--unwinding-assertions"]
    DEC_IN = ["argc", "data", "lf"]
    for byte in range(256):
        fmt = 0 if byte < vstart else (byte - vstart) // span
        tag = byte - fmt * span
        name, nary, argf = rows[tag]
        ent = "0x%02x" % byte
        label = "%s.%s.fmt%d" % (ent, name[5:], fmt)
        has_code = "C" in argf
        signed_len = fmt == 0 and (nary or "s" in argf or "n" in argf)
        data_tag = tag < vstart
        if "!" in argf:           # FOAM_Arb "cannot be written to a file": every path must refuse
            J("foam.dec0.%s.must_refuse" % label, "foam_dec_h.c", "h_dec0_" + ent, ["foamFrBuffer0"], DEC_IN, cls="B", bound=DEC_B,
              defs=["-DV_MUST_REFUSE"], cbmc=D0_UNW_NA, assumed=DEC_ASS)
            if tier == "thorough":
              J("foam.dec.%s.must_refuse" % label, "foam_dec_h.c", "h_dec_" + ent, ["foamFrBuffer"], DEC_IN, cls="B", bound=DEC_B,
              defs=["-DV_MUST_REFUSE"], cbmc=D_UNW_NA, assumed=DEC_ASS + ["xsfToNative/xdfToNative stubbed (C19 owns them)"], timeout=600)
            continue
        # -- foamFrBuffer0, the skipper
        if not has_code:
            if signed_len:
                J("foam.dec0.%s.lengths_nonneg" % label, "foam_dec_h.c", "h_dec0_" + ent, ["foamFrBuffer0"], DEC_IN, cls="B", bound=DEC_B,
                  defs=["-DV_NO_NEG_LEN"], cbmc=D0_UNW, assumed=DEC_ASS)
                J("foam.dec0.%s.length_negative" % label, "foam_dec_h.c", "h_dec0_" + ent, ["foamFrBuffer0"], DEC_IN, cls="B", bound=DEC_B,
                  defs=["-DV_NEG_LEN"], cbmc=D0_UNW_NA, assumed=DEC_ASS)
            else:
                J("foam.dec0." + label, "foam_dec_h.c", "h_dec0_" + ent, ["foamFrBuffer0"], DEC_IN, cls="B", bound=DEC_B,
                  cbmc=D0_UNW, assumed=DEC_ASS)
        # nodes WITH code children are not covered: the child's tag is symbolic and CBMC exhausts 8 GB / 600 s even for a
        # 12-byte buffer and one child (probed: Ptr 'C', Cast 'tC', RRec 'CC', Seq 'C*').  Stated in the report.
        # -- foamFrBuffer, the tree builder (node construction costs ~10 s of symex per node: data tags in quick)
        QUICK_DEC = ("FOAM_Nil", "FOAM_Char", "FOAM_HInt", "FOAM_SInt", "FOAM_SFlo", "FOAM_DFlo", "FOAM_Unimp")
        if not has_code and (tier == "thorough" or name in QUICK_DEC):
            fns = ["foamFrBuffer", "foamNewEmpty", "foamNewAlloc"]
            if "n" in argf:
                continue        # bintFrPlacevS belongs to bigint.c (C11); the 'n' field is covered for the skipper above
            if nary and fmt < 2:
                continue        # count read from the file => node of symbolic size: symex of the union foam stores does not finish
                                # in 600 s (probed: DFluid, DEnv, Arr); the count itself is covered by ...count_negative below
            if signed_len:
                J("foam.dec.%s.lengths_nonneg" % label, "foam_dec_h.c", "h_dec_" + ent, fns, DEC_IN, cls="B", bound=DEC_B,
                  defs=["-DV_NO_NEG_LEN"], cbmc=D_UNW, assumed=DEC_ASS, timeout=600)
                J("foam.dec.%s.length_negative" % label, "foam_dec_h.c", "h_dec_" + ent, fns, DEC_IN, cls="B", bound=DEC_B,
                  defs=["-DV_NEG_LEN"], cbmc=D_UNW_NA, assumed=DEC_ASS, timeout=600)
            else:
                J("foam.dec." + label, "foam_dec_h.c", "h_dec_" + ent, fns, DEC_IN, cls="B", bound=DEC_B,
                  cbmc=D_UNW, assumed=DEC_ASS, timeout=600)
    # n-ary node whose 4-byte count has the top bit set: the allocation must have room for the count, or be refused
    seq = [n for n, _, _ in rows].index("FOAM_Seq")
    J("foam.dec.0x%02x.Seq.fmt0.count_negative" % seq, "foam_dec_h.c", "h_dec_0x%02x" % seq, ["foamFrBuffer", "foamNewEmpty", "foamNewAlloc"],
      DEC_IN, cls="B", bound=DEC_B, defs=["-DV_COUNT_NEGATIVE"], assumed=DEC_ASS,
      cbmc=["--object-bits", "12", "--unwindset", "foamFrBuffer.0:2,foamFrBuffer.1:2,foamFrBuffer:1,foamNewEmpty.0:3"])
    # ---- (d) archive.c: member name read from an "ar" header, indirect names ("/<offset>") into the name table -------
    if tier == "thorough":
        J("archive.arRdItemArch.any_name_field", "archive_h.c", "h_arRdItemArch",
          ["arRdItemArch", "arRdItemArch0", "arReadNameTable", "arReadText", "arReadNumber", "arSeek"],
          ["img", "flen", "nsz", "tbl", "havetbl"], cls="B",
          bound="untruncated 60-byte header whose numeric fields are 0, 16-byte name field arbitrary; name table <= 8 bytes or absent",
          defs=["-DV_FILE_MAX=60", "-DV_NAMES_MAX=8", "-DV_ONLY_NAME_FIELD"], timeout=900,
          cbmc=["--unwindset", "arRdItemArch:2,arRdItemArch.0:10,arRdItemArch0.0:18,v_scan_lu.0:10,strcpy.0:4,strlen.0:12", "--unwinding-assertions"],
          assumed=["sscanf(\"%8lu \") and strtol replaced by harness models (libc)", "fnameUnparse stubbed (diagnostic text only)",
                   "file model: fseek/ftell/fread over an in-memory image"])
    return js


def foam_rows():
    """(tag name, is n-ary, argf) for every row of the REAL foamInfoTable, in table (= tag) order."""
    import os, re
    src = os.path.join(os.environ.get("ALDOR_REPO", "/repo"), "aldor/aldor/src/foam.c")
    text = open(src, encoding="latin-1").read()
    i = text.index("struct foam_info foamInfoTable[]")
    body = text[i:text.index("};", i)]
    rows = re.findall(r'\{\s*(FOAM_\w+)\s*,\s*0\s*,\s*"[^"]*"\s*,\s*([A-Za-z_0-9-]+)\s*,\s*"([^"]*)"', body)
    assert len(rows) > 50, "foamInfoTable not parsed"
    out, seen = [], set()
    for n, a, f in rows:          # the Prog row appears twice (#ifdef NEW_FORMATS / #else): same tag, keep one
        if n not in seen:
            seen.add(n)
            out.append((n, a == "FOAM_NARY", f))
    return out
