"""C17 jobs: damaged library files are refused, never silently used.
buffer.c readers, lib.c header/section readers, foam.c decoder, archive.c name table -- each on arbitrary bytes."""

ASSUMPTIONS = [
    "refusal = bug()/_do_assert() reached (ghost g_diag set, path ends: the real ones print and abort()) or a failure value returned",
    "buffer objects are exactly argc bytes (argc <= 64 symbolic): any access at or beyond argc is reported by --pointer-check",
    "allocator stub: stoAlloc/stoResize return fresh non-NULL memory of exactly the requested size; stoSize = that size",
]

BUF_IN = ["argc", "pos", "data"]


def jobs(tier):
    js = []

    def J(name, src, entry, fns, inputs, cls="P", kind="obligation", timeout=120, **kw):
        d = {"name": name, "src": src, "entry": entry, "functions": fns, "inputs": inputs,
             "native": True, "cls": cls, "timeout": timeout, "kind": kind}
        d.update(kw)
        js.append(d)

    # ---- (a) buffer.c readers ---------------------------------------------------------------------
    # loop-free readers: enforced by dfcc for EVERY buffer: argc <= 2^47 (the address space), any pos, any contents
    RD = [("bufSetPosition", ["n"]), ("bufGet1", []), ("bufGetByte", []), ("bufGetHInt", []), ("bufGetSInt", []),
          ("bufRdUByte", []), ("bufRdUShort", []), ("bufRdULong", [])]
    for fn, extra in RD:
        J("buffer.rd." + fn, "buffer_rd_h.c", "h_" + fn, [fn], BUF_IN + extra, enforce=["%s/c_%s" % (fn, fn)])
    # untrusted counts: case split on n (together = every n)
    for fn in ("bufSkip", "bufGetn"):
        J("buffer.rd.%s.n_below_2^63" % fn, "buffer_rd_h.c", "h_" + fn, [fn], BUF_IN + ["n"],
          defs=["-DV_N_PLAUSIBLE"], enforce=["%s/c_%s" % (fn, fn)])
        J("buffer.rd.%s.n_wraps" % fn, "buffer_rd_h.c", "h_" + fn, [fn], BUF_IN + ["n"], cls="B", bound="argc<=64",
          defs=["-DV_N_WRAPS", "-DV_ARGC_MAX=64"], enforce=["%s/c_%s" % (fn, fn)])
    for fn in ("bufSkip", "bufGetByte", "bufGetHInt", "bufGetSInt"):
        J("canary.buffer.rd." + fn, "buffer_rd_h.c", "h_" + fn, [fn], BUF_IN, kind="canary",
          defs=["-DCANARY_" + fn, "-DV_N_PLAUSIBLE"], enforce=["%s/c_%s" % (fn, fn)])
    # float readers: frame only (xsfToNative/xdfToNative are C19's)
    for fn in ("bufRdSFloat", "bufRdDFloat"):
        J("buffer.rd." + fn, "buffer_rd_h.c", "h_" + fn, [fn, "bufGetn"], BUF_IN, assumed=["xsfToNative/xdfToNative: no body here (C19 owns them)"])
    # readers with library loops (strlen/strncpy) and allocation: bounded in argc, case split per hostile class
    SMALL = ["-DV_ARGC_MAX=16"]
    LIBLOOPS = "strlen.0:20,strncpy.0:20,strcpy.0:20"
    UNW = ["--unwindset", LIBLOOPS, "--unwinding-assertions"]
    UNW_NOASSERT = ["--unwindset", LIBLOOPS]   # must-refuse classes: the hostile path may run a library loop 2^64 times
    B16 = "argc<=16 (pos, contents symbolic)"
    for fn in ("bufGets", "bufGetString"):
        J("buffer.rd.%s.terminated" % fn, "buffer_rd_h.c", "h_" + fn, [fn], BUF_IN + ["gi"], cls="B", bound=B16,
          defs=SMALL + ["-DV_TERMINATED"], cbmc=UNW)
        J("buffer.rd.%s.unterminated" % fn, "buffer_rd_h.c", "h_" + fn, [fn], BUF_IN + ["gi"], cls="B", bound=B16,
          defs=SMALL + ["-DV_UNTERMINATED"], cbmc=UNW_NOASSERT)
    J("buffer.rd.bufGetChars", "buffer_rd_h.c", "h_bufGetChars", ["bufGetChars", "bufGetn"], BUF_IN + ["cc", "gi"], cls="B",
      bound=B16 + ", cc<=16", defs=SMALL, cbmc=UNW)
    J("buffer.rd.bufRdChars.cc_nonneg", "buffer_rd_h.c", "h_bufRdChars", ["bufRdChars", "bufGetChars", "bufGetn", "strAlloc"],
      BUF_IN + ["cc", "gi"], cls="B", bound=B16, defs=SMALL + ["-DV_CC_NONNEG"], cbmc=UNW)
    J("buffer.rd.bufRdChars.cc_negative", "buffer_rd_h.c", "h_bufRdChars", ["bufRdChars", "bufGetChars", "bufGetn", "strAlloc"],
      BUF_IN + ["cc", "gi"], cls="B", bound=B16, defs=SMALL + ["-DV_CC_NEG"], cbmc=UNW_NOASSERT)
    for fn in ("bufRdString", "bufRdBuffer"):
        J("buffer.rd.%s.len_nonneg" % fn, "buffer_rd_h.c", "h_" + fn, [fn, "bufGetSInt", "bufGetChars", "bufGetn", "strAlloc"],
          BUF_IN + ["gi"], cls="B", bound=B16, defs=SMALL + ["-DV_CC_NONNEG"], cbmc=UNW)
        J("buffer.rd.%s.len_negative" % fn, "buffer_rd_h.c", "h_" + fn, [fn, "bufGetSInt", "bufGetChars", "bufGetn", "strAlloc"],
          BUF_IN + ["gi"], cls="B", bound=B16, defs=SMALL + ["-DV_CC_NEG"], cbmc=UNW_NOASSERT)

    # ---- (b) lib.c header and section readers (plain cbmc: lib.c's static initialisers must survive) -------------
    LIBUNW = ["--unwindset", "libChkHeader.0:19,libChkHeader.1:19", "--unwinding-assertions"]   # 19 > LIB_INDEX_LIMIT: constant bound
    LIBASS = ["fnameUnparseStaticWithout stubbed (diagnostic text only)", "comsgError records and returns; comsgFatal does not return",
              "file model: fseek sets the position, fread delivers min(requested, bytes left) and returns that count"]
    HDR_IN = ["magic", "vmaj", "vmin", "nsect", "nm", "off", "len", "idx", "gi"]
    J("lib.libChkHeader.any_header", "lib_h.c", "h_libChkHeader", ["libChkHeader"], HDR_IN, cbmc=LIBUNW, assumed=LIBASS)
    J("canary.lib.libChkHeader", "lib_h.c", "h_libChkHeader", ["libChkHeader"], HDR_IN, kind="canary",
      defs=["-DCANARY_libChkHeader"], cbmc=LIBUNW)
    J("lib.libGetHeader.any_file.memory_safety_and_index_map", "lib_h.c", "h_libGetHeader",
      ["libGetHeader", "libChkHeader", "libNewHeader", "bufCapture", "bufGetHInt", "bufGetSInt", "bufGetByte", "strAlloc"],
      ["img", "flen", "gi"], defs=["-DV_ONLY_SAFETY"], cbmc=LIBUNW, assumed=LIBASS)
    J("lib.libGetHeader.any_file.verdict_reaches_caller", "lib_h.c", "h_libGetHeader",
      ["libGetHeader", "libChkHeader"], ["img", "flen", "gi"], cbmc=LIBUNW, assumed=LIBASS)
    SEC_IN = ["img", "flen", "nsect", "nm", "off", "len", "name", "stat"]
    SEC_FN = ["libGetSection", "libHasSection", "bufCapture", "bufNeed", "bufNew", "strAlloc"]
    SEC_B = "file image <= 200 bytes (header fields, section name, static/fresh buffer symbolic)"
    J("lib.libGetSection.file_holds_section", "lib_h.c", "h_libGetSection", SEC_FN, SEC_IN, cls="B", bound=SEC_B,
      defs=["-DV_FILE_HOLDS_SECTION"], assumed=LIBASS)
    J("lib.libGetSection.any_file", "lib_h.c", "h_libGetSection", SEC_FN, SEC_IN, cls="B", bound=SEC_B, assumed=LIBASS)
    return js
