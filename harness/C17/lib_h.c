/* C17 harnesses for the library header / section readers: the real lib.c, buffer.c and strops.c are
 * included verbatim (libChkHeader, libGetSection are file-local).  No dfcc here: lib.c's static
 * initialisers (libHdrMagic, libMajorVersion, debug flags) must keep their values. */
#include "lib.c"
#include "buffer.c"
#include "strops.c"
#include "vharness.h"
#define V_STUB_BUG_DIAG
#define V_STUB_MEMCHR
#include "stubs.h"
#define C_BUFFER_HARNESS_SUPPORT
#define C_BUFFER_STO_REFUSING
#include "c_buffer.h"
#include <string.h>

int g_err;
UShort g_i;
#include "c_lib.h"

/* ---- diagnostics: comsgError records and RETURNS (the compilation goes on); comsgFatal does not return */
void comsgError(AbSyn ab, Msg fmt, ...) { (void) ab; (void) fmt; g_err = 1; }
void comsgFatal(AbSyn ab, Msg fmt, ...)
{
	(void) ab; (void) fmt; g_diag = 1;
#ifdef NATIVE_REPLAY
	printf("REPLAY-DIAG comsgFatal\n"); exit(v_replay_failed ? 1 : 0);
#else
	__CPROVER_assume(0);
#endif
}

/* only used to build the text of a diagnostic */
String fnameUnparseStaticWithout(FileName fn) { (void) fn; return "lib"; }

/* ---- the file: V_FILE_MAX arbitrary bytes of which only the first g_file_len exist (truncation).
 * fread delivers AT MOST what is there and says so in its result (which lib.c ignores). */
#ifndef V_FILE_MAX
# define V_FILE_MAX 200
#endif
static UByte  g_file[V_FILE_MAX];
static Length g_file_len, g_file_pos;
static Length g_rd_want, g_rd_got;
static int    g_rd_calls;

int fseek(FILE *f, long off, int whence) { (void) f; (void) whence; g_file_pos = (Length) off; return 0; }
size_t fread(void *p, size_t sz, size_t n, FILE *f)
{
	Length want = sz * n;
	Length avail = g_file_pos < g_file_len ? g_file_len - g_file_pos : 0;
	Length got = want < avail ? want : avail;
	(void) f;
	if (got > 0) memcpy(p, g_file + g_file_pos, got);
	g_file_pos += got;
	g_rd_want = want; g_rd_got = got; g_rd_calls++;
	return sz ? got / sz : 0;
}

static Lib v_mk_lib(void)
{
	Lib lib = (Lib) malloc(sizeof(*lib));
#ifndef NATIVE_REPLAY
	__CPROVER_assume(lib != 0);
#else
	memset(lib, 0, sizeof(*lib));
#endif
	lib->file = (FILE *) 0;
	lib->offset = 0;
	return lib;
}

#define FILE_INPUTS \
	V_INPUT_ARR(UByte, img, V_FILE_MAX); INPUT(Length, flen); \
	ASSUME(flen <= V_FILE_MAX); \
	memcpy(g_file, img, V_FILE_MAX); g_file_len = flen; g_file_pos = 0; g_rd_calls = 0; g_err = 0; g_diag = 0

/* libChkHeader on ANY header: every field, every name, every Index[] entry arbitrary */
void h_libChkHeader(void)
{
	INPUT(UShort, magic); INPUT(ULong, vmaj); INPUT(ULong, vmin); INPUT(UShort, nsect);
	V_INPUT_ARR(UByte, nm, LIB_HDR_LIMIT); V_INPUT_ARR(Offset, off, LIB_HDR_LIMIT); V_INPUT_ARR(Offset, len, LIB_HDR_LIMIT);
	V_INPUT_ARR(UShort, idx, LIB_HDR_LIMIT); INPUT(UShort, gi);
	Lib lib = v_mk_lib(); int i;
	lib->hdr.magic = magic; lib->hdr.verMajor = vmaj; lib->hdr.verMinor = vmin; lib->hdr.numSect = nsect;
	for (i = 0; i < LIB_HDR_LIMIT; i++) {
		lib->hdr.Section[i].name = nm[i]; lib->hdr.Section[i].offset = off[i]; lib->hdr.Section[i].length = len[i];
		lib->hdr.Index[i] = idx[i];
	}
	g_i = gi; g_err = 0;
	ASSUME(gi < LIB_HDR_LIMIT);
	Bool r = libChkHeader(lib);
	CHECK("c_libChkHeader.postcondition: true => WFH(hdr), false => diagnostic", POST_libChkHeader(&lib->hdr, r));
	VREACH();
}

/* libGetHeader on ANY file image of ANY length <= libHdrSize + some, as libExtract calls it */
void h_libGetHeader(void)
{
	FILE_INPUTS; INPUT(UShort, gi);
	Lib lib = v_mk_lib();
	libNewHeader(lib);                     /* call site: libNew */
	g_i = gi; ASSUME(gi < LIB_HDR_LIMIT);
	Lib r = libGetHeader(lib);
	CHECK("libGetHeader: asked the file for the whole header", g_rd_calls == 1 && g_rd_want == V_HDR_SIZE);
	CHECK("libGetHeader: name->index map in range for every name", IDX_OK(&lib->hdr, gi) && ABSENT_OK(&lib->hdr));
#ifndef V_ONLY_SAFETY
	CHECK("c_libGetHeader.postcondition: returns => WFH(hdr) (a refused header must not be handed to the caller)",
	      POST_libGetHeader(&r->hdr, r));
#endif
	VREACH();
}

/* libGetSection on a header that passed validation, any section name, file of any length */
void h_libGetSection(void)
{
	FILE_INPUTS;
	INPUT(UShort, nsect); V_INPUT_ARR(UByte, nm, LIB_HDR_LIMIT); V_INPUT_ARR(Offset, off, LIB_HDR_LIMIT);
	V_INPUT_ARR(Offset, len, LIB_HDR_LIMIT); INPUT(UByte, name); INPUT(Bool, stat);
	Lib lib = v_mk_lib(); int i;
	libNewHeader(lib);
	lib->hdr.numSect = nsect;
	ASSUME(nsect <= LIB_INDEX_LIMIT);
	/* WFH for every i, as a constant loop of assumptions; header fields are what libGetHeader can produce:
	 * offsets and lengths are 4-byte unsigned values */
	for (i = 0; i < LIB_INDEX_LIMIT; i++) {
		if (i < nsect) {
			ASSUME(nm[i] < LIB_NAME_LIMIT && off[i] <= 0xffffffffUL && len[i] <= 0xffffffffUL);
			ASSUME(lib->hdr.Index[nm[i]] == LIB_INDEX_LIMIT);    /* not seen before: Index[name[i]] == i */
			lib->hdr.Section[i].name = nm[i]; lib->hdr.Section[i].offset = off[i]; lib->hdr.Section[i].length = len[i];
			lib->hdr.Index[nm[i]] = i;
			ASSUME(off[i] == (i == 0 ? (Offset) V_HDR_SIZE : off[i - 1] + len[i - 1]));
		}
	}
	ASSUME(name < LIB_NAME_LIMIT);
	ASSUME(stat == 0 || stat == 1);
#ifdef V_FILE_HOLDS_SECTION                /* sub-case: the file is not truncated inside the section asked for */
	ASSUME(lib->hdr.Section[lib->hdr.Index[name]].offset + lib->hdr.Section[lib->hdr.Index[name]].length <= flen);
#endif
	Buffer r = libGetSection(lib, (LibSectName) name, stat);
	CHECK("c_libGetSection.postcondition", POST_libGetSection(&lib->hdr, name, r, g_rd_want, g_rd_got));
	VREACH();
}

#ifdef NATIVE_REPLAY
V_NATIVE_MAIN(ENTRY)
#endif
