/* C17 harnesses for the FOAM decoders on arbitrary bytes: the real foam.c, buffer.c, strops.c, int.c are included
 * verbatim.  bug()/_do_assert()/allocation failure are a visible refusal.  Plain cbmc (foamInfoTable keeps its
 * initialiser).  The buffer's argv is an object of exactly argc bytes. */
#include "foam.c"
#include "buffer.c"
#include "int.c"
#include "strops.c"
#include "vharness.h"
#define V_STUB_BUG_DIAG
#define V_STUB_MEMCHR
#include "stubs.h"
/* ghost obligation at the allocation of a FOAM node: the node must have room for the number of slots the
 * file claims (g_expect_slots, set by the harness from the count field).  In the must-refuse class the
 * path ends there: the obligation is decided at the allocation, before any store into the node. */
static Length g_expect_slots; static int g_expect_on;
static void v_alloc_hook(unsigned code, ULong size)
{
	if (g_expect_on && code == OB_Foam) {
		CHECK("foamFrBuffer: the node allocated for an n-ary tag has room for the count read from the file",
		      size >= sizeof(struct foamHdr) && g_expect_slots <= (size - sizeof(struct foamHdr)) / sizeof(Foam));
#ifdef NATIVE_REPLAY
		exit(v_replay_failed ? 1 : 0);
#else
		__CPROVER_assume(0);
#endif
	}
}
#define V_ALLOC_HOOK(code, size) v_alloc_hook(code, size)
#define C_BUFFER_HARNESS_SUPPORT
#define C_BUFFER_STO_REFUSING
#define V_ALLOC_FOAM_NODES
#include "c_buffer.h"
#include "c_foam_codec.h"

#ifndef V_DEC_MAX
# define V_DEC_MAX 24
#endif

/* the float codecs are C19's (xfloat.c): here only "6 / 10 bytes consumed" matters */
#ifndef NATIVE_REPLAY
void xsfToNative(XSFloat *px, SFloat *pf) { SFloat nd; (void) px; *pf = nd; }
void xdfToNative(XDFloat *px, DFloat *pf) { DFloat nd; (void) px; *pf = nd; }
#endif

/* Decoder harness buffer: argv is an object of exactly V_DEC_MAX bytes, argc <= V_DEC_MAX is symbolic
 * (truncation), the first byte (the tag) is fixed per job so that foamInfo(tag).argf is a known format string.
 * Accesses between argc and V_DEC_MAX would not be flagged by the pointer check here; they are excluded
 * compositionally: the decoders touch the buffer only through bufGetByte/bufGetHInt/bufGetSInt/bufGetn/
 * bufRdChars, whose contracts (jobs buffer.rd.*) say pos' <= argc or refusal for every buffer state. */
static Buffer v_mk_dec_buffer(Length argc, const UByte *data)
{
	Buffer b = (Buffer) malloc(sizeof(*b));
	UByte *v = (UByte *) malloc(V_DEC_MAX);
	int i;
#ifndef NATIVE_REPLAY
	__CPROVER_assume(b != 0 && v != 0);
#endif
	for (i = 0; i < V_DEC_MAX; i++) v[i] = data[i];
	b->argv = v; b->argc = argc; b->pos = 0;
	return b;
}

/* case split on whether some length/count field of the node decodes to a negative int (a damaged count):
 *   V_NO_NEG_LEN: none does;   V_NEG_LEN: one does -- every path must refuse, reachability marker before the call */
#if defined(V_NO_NEG_LEN)
# define V_SPLIT_NEG() ASSUME(!v_spec_neg)
#elif defined(V_NEG_LEN)
# define V_SPLIT_NEG() ASSUME(v_spec_neg); VREACH()
#elif defined(V_MUST_REFUSE)     /* a shape that cannot be in a file ('!'): every path must refuse */
# define V_SPLIT_NEG() VREACH()
#else
# define V_SPLIT_NEG() ((void) 0)
#endif

/* foamFrBuffer0 (the skipper used to find constants inside a unit): any bytes after the given tag byte.
 * returns => the position moved FORWARD and stayed inside the contents. */
static void v_dec0(int tagbyte, Length argc, UByte *data, int lf)
{
	ASSUME(argc >= 1 && argc <= V_DEC_MAX);
	data[0] = (UByte) tagbyte;
	ASSUME(lf == 0 || lf == 1); labelFmt = lf;            /* file-static left by an earlier 'F' field */
	Buffer b = v_mk_dec_buffer(argc, data); UByte *argv0 = b->argv;
	long want = v_spec_len(data, (long) argc, lf);
	V_SPLIT_NEG();
	foamFrBuffer0(b);
	CHECK("foamFrBuffer0: returns => position moved forward, inside the contents",
	      b->pos > 0 && b->pos <= argc && b->argc == argc && b->argv == argv0);
	CHECK("foamFrBuffer0: returns => the bytes were a well-formed node and exactly its encoded length was consumed",
	      want == -2 || (want >= 1 && (long) b->pos == want));
#if !defined(V_NEG_LEN) && !defined(V_MUST_REFUSE)
	VREACH();
#endif
}

/* foamFrBuffer (the tree builder): any bytes after the given tag byte.
 * returns => a node of the tag the byte denotes, with the arity the table (or the count field) says, the
 * position moved forward inside the contents; every store into the node is inside the node (pointer check). */
static void v_dec(int tagbyte, Length argc, UByte *data, int lf)
{
	ASSUME(argc >= 1 && argc <= V_DEC_MAX);
	data[0] = (UByte) tagbyte;
#ifdef V_COUNT_NEGATIVE          /* must-refuse class: the 4-byte count of an n-ary node has its top bit set */
	ASSUME(argc >= 5 && (data[4] & 0x80));
#endif
#ifdef V_COUNT_SMALL             /* the 4-byte count of an n-ary node is at most 2 */
	ASSUME(argc >= 5 && data[1] <= 2 && data[2] == 0 && data[3] == 0 && data[4] == 0);
#endif
	ASSUME(lf == 0 || lf == 1); labelFmt = lf;
	foamIsInit = true;                                    /* foamInit only interns tag names for printing */
	Buffer b = v_mk_dec_buffer(argc, data); UByte *argv0 = b->argv;
	int fmt = FOAM_FORMAT_GET(tagbyte), tag = FOAM_FORMAT_REMOVE(tagbyte, fmt);
#ifdef V_COUNT_NEGATIVE
	g_expect_slots = (Length)(long)(int) DEC_LE4(data + 1);   /* what the decoder will ask for: int argc = bufGetSInt() */
	g_expect_on = 1;
	VREACH();
#endif
	long want = v_spec_len(data, (long) argc, lf);
	V_SPLIT_NEG();
	Foam r = foamFrBuffer(b);
	CHECK("foamFrBuffer: returns => the bytes were a well-formed node and exactly its encoded length was consumed",
	      want == -2 || (want >= 1 && (long) b->pos == want));
	CHECK("foamFrBuffer: returns => node of the denoted tag, position moved forward inside the contents",
	      r != 0 && foamTag(r) == tag && b->pos > 0 && b->pos <= argc && b->argc == argc && b->argv == argv0);
	CHECK("foamFrBuffer: fixed-arity node has the table's arity",
	      foamInfo(tag).argc != FOAM_NARY ? foamArgc(r) == (Length) foamInfo(tag).argc || tag == FOAM_DFlo : 1);
#if !defined(V_COUNT_NEGATIVE) && !defined(V_NEG_LEN) && !defined(V_MUST_REFUSE)
	VREACH();
#endif
}

/* one entry point per value of the first byte: the decoders are covered for ALL 256 tag bytes */
/* (the nondet inputs are declared in the entry function so that the driver can read them off the trace) */
#define H_IN   INPUT(Length, argc); V_INPUT_ARR(UByte, data, V_DEC_MAX); INPUT(int, lf)
#define H(n)   void h_dec0_##n(void) { H_IN; v_dec0(n, argc, data, lf); }  void h_dec_##n(void) { H_IN; v_dec(n, argc, data, lf); }
#define ROW(h) H(0x##h##0) H(0x##h##1) H(0x##h##2) H(0x##h##3) H(0x##h##4) H(0x##h##5) H(0x##h##6) H(0x##h##7) \
	       H(0x##h##8) H(0x##h##9) H(0x##h##a) H(0x##h##b) H(0x##h##c) H(0x##h##d) H(0x##h##e) H(0x##h##f)
ROW(0) ROW(1) ROW(2) ROW(3) ROW(4) ROW(5) ROW(6) ROW(7) ROW(8) ROW(9) ROW(a) ROW(b) ROW(c) ROW(d) ROW(e) ROW(f)

#ifdef NATIVE_REPLAY
V_NATIVE_MAIN(ENTRY)
#endif
