/* C17 harness for the archive member-name reader: the real archive.c, buffer.c, strops.c are included verbatim.
 * arRdItemArch reads one 60-byte "ar" member header from ANY bytes; a name of the form "/<digits>" is an offset
 * into the name table read earlier.  Plain cbmc (archive.c's static tables keep their initialisers). */
#include "archive.c"
#include "buffer.c"
#include "strops.c"
#include "vharness.h"
#define V_STUB_BUG_DIAG
#define V_STUB_MEMCHR
#include "stubs.h"
#define C_BUFFER_HARNESS_SUPPORT
#define C_BUFFER_STO_REFUSING
#include "c_buffer.h"
#include <string.h>

int g_err;
void comsgError(AbSyn ab, Msg fmt, ...) { (void) ab; (void) fmt; g_err = 1; }
void comsgFatal(AbSyn ab, Msg fmt, ...)
{
	(void) ab; (void) fmt; g_diag = 1;
#ifdef NATIVE_REPLAY
	printf("REPLAY-DIAG comsgFatal\n"); exit(v_replay_failed ? 1 : 0);
#else
	__CPROVER_assume(0);
#endif
}
String fnameUnparse(FileName fn) { (void) fn; return "ar"; }

/* file model: V_FILE_MAX arbitrary bytes of which the first g_file_len exist; fread delivers at most what is there */
#ifndef V_FILE_MAX
# define V_FILE_MAX 64
#endif
static UByte  g_file[V_FILE_MAX];
static Length g_file_len, g_file_pos;
int  fseek(FILE *f, long off, int whence) { (void) f; (void) whence; g_file_pos = (Length) off; return 0; }
long ftell(FILE *f) { (void) f; return (long) g_file_pos; }
size_t fread(void *p, size_t sz, size_t n, FILE *f)
{
	Length want = sz * n;
	Length avail = g_file_pos < g_file_len ? g_file_len - g_file_pos : 0;
	Length got = want < avail ? want : avail;
	(void) f;
	if (got > 0) memcpy(p, g_file + g_file_pos, got);
	g_file_pos += got;
	return sz ? got / sz : 0;
}
#ifndef NATIVE_REPLAY
/* libc model for the one conversion archive.c uses: sscanf(s, "%8lu ", &idx) -- up to 8 decimal digits */
static int v_scan_lu8(const char *s, unsigned long *out);
int sscanf(const char *s, const char *fmt, ...)      /* (glibc's <stdio.h> renames this to __isoc99_sscanf) */
{
	va_list ap; unsigned long *out;
	(void) fmt;
	va_start(ap, fmt); out = va_arg(ap, unsigned long *); va_end(ap);
	return v_scan_lu8(s, out);
}
static int v_scan_lu8(const char *s, unsigned long *out)
{
	unsigned long v = 0; int i, n = 0;
	for (i = 0; i < 8 && s[i] >= '0' && s[i] <= '9'; i++) { v = v * 10 + (unsigned long)(s[i] - '0'); n = 1; }
	if (n) *out = v;
	return n;
}
#endif

#ifndef NATIVE_REPLAY
/* libc model, over-approximate: any value, end pointer anywhere in the first 12 characters.  The numeric header
 * fields only feed positions that are then checked by arSeek against the archive size. */
long strtol(const char *nptr, char **endp, int base)
{
	long v; unsigned k;
	(void) base;
	__CPROVER_assume(k <= 12);
	if (endp) *endp = (char *) nptr + k;
	return v;
}
#endif

#ifndef V_NAMES_MAX
# define V_NAMES_MAX 12
#endif
void h_arRdItemArch(void)
{
	V_INPUT_ARR(UByte, img, V_FILE_MAX); INPUT(Length, flen); INPUT(Length, nsz); V_INPUT_ARR(char, tbl, V_NAMES_MAX + 1);
	INPUT(Bool, havetbl);
	ASSUME(flen <= V_FILE_MAX && nsz <= V_NAMES_MAX);
#ifdef V_ONLY_NAME_FIELD      /* bound: an untruncated header whose numeric fields are "0": only the 16-byte name field is arbitrary */
	{ int i; for (i = 16; i < 58; i++) img[i] = (i % 2) ? ' ' : '0'; img[58] = 96; img[59] = 10; }
	ASSUME(flen == 60);
#endif
	memcpy(g_file, img, V_FILE_MAX); g_file_len = flen; g_file_pos = 0; g_err = 0; g_diag = 0;
	Archive ar = (Archive) malloc(sizeof(*ar));
#ifndef NATIVE_REPLAY
	__CPROVER_assume(ar != 0);
#else
	memset(ar, 0, sizeof(*ar));
#endif
	ar->file = (FILE *) 0; ar->format = AR_Arch; ar->size = flen; ar->hasFile = 1; ar->item = 0; ar->pos = 0; ar->__next = 0; ar->name = 0;
	/* the name table as arReadNameTable leaves it: strAlloc(nsz) filled from the file (any bytes), or none read yet */
	if (havetbl) { ar->names = strAlloc(nsz); memcpy(ar->names, tbl, nsz); } else ar->names = 0;
#ifdef V_DIRECT_NAME          /* sub-case: the member name is stored in the header itself */
	ASSUME(img[0] != '/');
#endif
	String r = arRdItemArch(ar);
	CHECK("arRdItemArch: returns => a name, or a recorded diagnostic", r != 0 || g_err != 0);
	VREACH();
}

#ifdef NATIVE_REPLAY
V_NATIVE_MAIN(ENTRY)
#endif
