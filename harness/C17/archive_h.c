/* C17 harness for the archive member-name reader: the real archive.c, buffer.c, strops.c are included verbatim.
 * arRdItemArch reads one 60-byte "ar" member header from ANY bytes; a name of the form "/<digits>" is an offset
 * into the name table read earlier.  Plain cbmc (archive.c's static tables keep their initialisers). */
#include "archive.c"
#include "buffer.c"
#include "strops.c"
#include "vharness.h"
#define V_STUB_BUG_DIAG
#define V_STUB_MEMCHR
#include "stubs.h"
#define C_BUFFER_HARNESS_SUPPORT
#define C_BUFFER_STO_REFUSING
#include "c_buffer.h"
#include <string.h>

int g_err;
void comsgError(AbSyn ab, Msg fmt, ...) { (void) ab; (void) fmt; g_err = 1; }
void comsgFatal(AbSyn ab, Msg fmt, ...)
{
	(void) ab; (void) fmt; g_diag = 1;
#ifdef NATIVE_REPLAY
	printf("REPLAY-DIAG comsgFatal\n"); exit(v_replay_failed ? 1 : 0);
#else
	__CPROVER_assume(0);
#endif
}
String fnameUnparse(FileName fn) { (void) fn; return "ar"; }

/* file model: V_FILE_MAX arbitrary bytes of which the first g_file_len exist; fread delivers at most what is there */
#ifndef V_FILE_MAX
# define V_FILE_MAX 64
#endif
static UByte  g_file[V_FILE_MAX];
static Length g_file_len, g_file_pos;
int  fseek(FILE *f, long off, int whence) { (void) f; (void) whence; g_file_pos = (Length) off; return 0; }
long ftell(FILE *f) { (void) f; return (long) g_file_pos; }
size_t fread(void *p, size_t sz, size_t n, FILE *f)
{
	Length want = sz * n;
	Length avail = g_file_pos < g_file_len ? g_file_len - g_file_pos : 0;
	Length got = want < avail ? want : avail;
	(void) f;
	if (got > 0) memcpy(p, g_file + g_file_pos, got);
	g_file_pos += got;
	return sz ? got / sz : 0;
}
#ifndef NATIVE_REPLAY
/* libc model for the conversion family archive.c uses: sscanf(s, "%<w>l<c> ", &n) with w one decimal digit and
 * c in {u, o, x}: up to w digits of radix 10 / 8 / 16 (the radix is READ FROM THE FORMAT, so that a format that says
 * octal is modelled as octal) */
static int v_scan_lu(const char *s, unsigned width, unsigned radix, unsigned long *out);
int sscanf(const char *s, const char *fmt, ...)      /* (glibc's <stdio.h> renames this to __isoc99_sscanf) */
{
	va_list ap; unsigned long *out; unsigned width = 8, radix = 10;
	if (fmt[0] == '%' && fmt[1] >= '1' && fmt[1] <= '9' && fmt[2] == 'l') {
		width = (unsigned) (fmt[1] - '0');
		radix = fmt[3] == 'o' ? 8 : fmt[3] == 'x' ? 16 : 10;
	}
	va_start(ap, fmt); out = va_arg(ap, unsigned long *); va_end(ap);
	return v_scan_lu(s, width, radix, out);
}
static int v_scan_lu(const char *s, unsigned width, unsigned radix, unsigned long *out)
{
	unsigned long v = 0; unsigned i; int n = 0;
	for (i = 0; i < 8 && i < width; i++) {
		int c = s[i], dg;
		dg = (c >= '0' && c <= '9') ? c - '0' : (c >= 'a' && c <= 'f') ? c - 'a' + 10 : (c >= 'A' && c <= 'F') ? c - 'A' + 10 : 99;
		if (dg >= (int) radix) break;
		v = v * radix + (unsigned long) dg; n = 1;
	}
	if (n) *out = v;
	return n;
}
#endif

#ifndef NATIVE_REPLAY
/* libc model, over-approximate: any value, end pointer anywhere in the first 12 characters.  The numeric header
 * fields only feed positions that are then checked by arSeek against the archive size. */
long strtol(const char *nptr, char **endp, int base)
{
	long v; unsigned k;
	(void) base;
	__CPROVER_assume(k <= 12);
	if (endp) *endp = (char *) nptr + k;
	return v;
}
#endif

#ifndef V_NAMES_MAX
# define V_NAMES_MAX 12
#endif
void h_arRdItemArch(void)
{
	V_INPUT_ARR(UByte, img, V_FILE_MAX); INPUT(Length, flen); INPUT(Length, nsz); V_INPUT_ARR(char, tbl, V_NAMES_MAX + 1);
	INPUT(Bool, havetbl);
	ASSUME(flen <= V_FILE_MAX && nsz <= V_NAMES_MAX);
#ifdef V_ONLY_NAME_FIELD      /* bound: an untruncated header whose numeric fields are "0": only the 16-byte name field is arbitrary */
	{ int i; for (i = 16; i < 58; i++) img[i] = (i % 2) ? ' ' : '0'; img[58] = 96; img[59] = 10; }
	ASSUME(flen == 60);
#endif
	memcpy(g_file, img, V_FILE_MAX); g_file_len = flen; g_file_pos = 0; g_err = 0; g_diag = 0;
	Archive ar = (Archive) malloc(sizeof(*ar));
#ifndef NATIVE_REPLAY
	__CPROVER_assume(ar != 0);
#else
	memset(ar, 0, sizeof(*ar));
#endif
	ar->file = (FILE *) 0; ar->format = AR_Arch; ar->size = flen; ar->hasFile = 1; ar->item = 0; ar->pos = 0; ar->__next = 0; ar->name = 0;
	/* the name table as arReadNameTable leaves it: strAlloc(nsz) filled from the file (any bytes), or none read yet */
	if (havetbl) { ar->names = strAlloc(nsz); memcpy(ar->names, tbl, nsz); } else ar->names = 0;
#ifdef V_DIRECT_NAME          /* sub-case: the member name is stored in the header itself */
	ASSUME(img[0] != '/');
#endif
	String r = arRdItemArch(ar);
	CHECK("arRdItemArch: returns => a name, or a recorded diagnostic", r != 0 || g_err != 0);
	VREACH();
}

/* C05 (archives lose nothing): a member whose header says "/<offset>" (decimal, as `ar` writes it) is given the name
 * stored at that offset of the name table, up to the terminating '/' or newline.  Header numeric fields are "0";
 * table: V_NAMES_MAX arbitrary bytes; offset: any decimal number of 1 or 2 digits inside the table. */
void h_arIndirectName(void)
{
	V_INPUT_ARR(char, tbl, V_NAMES_MAX + 1); INPUT(unsigned, off); INPUT(unsigned, k);
	UByte img[V_FILE_MAX]; int i;
	ASSUME(off < V_NAMES_MAX);
	for (i = 0; i < V_NAMES_MAX; i++) ASSUME(tbl[i] != 0);	/* a name table is text */
	tbl[V_NAMES_MAX] = 0;
	for (i = 0; i < 16; i++) img[i] = ' ';
	img[0] = '/';
	if (off >= 10) { img[1] = (UByte) ('0' + off / 10); img[2] = (UByte) ('0' + off % 10); } else img[1] = (UByte) ('0' + off);
	for (i = 16; i < 58; i++) img[i] = (i % 2) ? ' ' : '0';
	img[58] = 96; img[59] = 10;
	memcpy(g_file, img, V_FILE_MAX); g_file_len = 60; g_file_pos = 0; g_err = 0; g_diag = 0;
	Archive ar = (Archive) malloc(sizeof(*ar));
#ifndef NATIVE_REPLAY
	__CPROVER_assume(ar != 0);
#else
	memset(ar, 0, sizeof(*ar));
#endif
	ar->file = (FILE *) 0; ar->format = AR_Arch; ar->size = 60; ar->hasFile = 1; ar->item = 0; ar->pos = 0; ar->__next = 0; ar->name = 0;
	ar->names = strAlloc(V_NAMES_MAX); memcpy(ar->names, tbl, V_NAMES_MAX);
	String r = arRdItemArch(ar);
	CHECK("indirect member name: found for an offset inside the table", r != 0);	/* (the 60-byte image has no next member: a diagnostic about that is not this job's business) */
	/* ghost position k: the k-th character of the result is the (off+k)-th of the table, and the result ends exactly at the terminator */
	if (r != 0) {
		unsigned len = 0;
		while (len < V_NAMES_MAX && off + len < V_NAMES_MAX && tbl[off + len] != '/' && tbl[off + len] != '\n') len++;
		CHECK("indirect member name: length = distance to the terminator", strLength(r) == len);
		CHECK("indirect member name: same characters as the table at that offset (ghost index)", !(k < len) || r[k] == tbl[off + k]);
	}
	VREACH();
}

#ifdef NATIVE_REPLAY
V_NATIVE_MAIN(ENTRY)
#endif
