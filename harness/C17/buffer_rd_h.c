/* C17 harnesses for the buffer.c readers: the real buffer.c is included verbatim.
 * bug()/_do_assert() are a VISIBLE REFUSAL here (ghost g_diag, path ends); every path that returns
 * must have consumed bytes inside [pos, argc) only.  argv is an object of exactly argc bytes. */
/* buffer.c's always-on bounds check (bufMust) reports through the variadic bug(fmt, ...); dfcc cannot frame-check a
 * variadic callee, so inside this unit the call is routed to a non-variadic twin with the same meaning (refusal) */
extern void v_bug_refuses(void);
#define bug(...) v_bug_refuses()
#include "buffer.c"
#undef bug
#include "strops.c"     /* strAlloc, strLength, strCopy: the real bodies */
#include "vharness.h"
#define V_STUB_BUG_DIAG
#define V_STUB_MEMCHR
#include "stubs.h"
#define C_BUFFER_HARNESS_SUPPORT
#define C_BUFFER_STO_REFUSING   /* stoAlloc(0) == NULL, absurd sizes refused with a diagnostic, as the real store.c */
#include "c_buffer.h"
void v_bug_refuses(void)
{
	g_diag = 1;
#ifdef NATIVE_REPLAY
	printf("REPLAY-DIAG bug(): buffer access out of range\n"); exit(v_replay_failed ? 1 : 0);
#else
	__CPROVER_assume(0);
#endif
}

#ifndef V_NCH
# define V_NCH 16
#endif
/* case split on an untrusted count n (both halves are jobs; together they are the whole domain):
 *   V_N_PLAUSIBLE  n < 2^63  (pos + n cannot wrap)      V_N_WRAPS  n >= 2^63 (e.g. a negative int length) */
#if defined(V_N_PLAUSIBLE)
# define V_SPLIT_N(n) ASSUME((n) < (1UL << 63))
#elif defined(V_N_WRAPS)
# define V_SPLIT_N(n) ASSUME((n) >= (1UL << 63)); VREACH()	/* hostile half: must be refused on every path, so the reachability marker sits BEFORE the call */
#else
# define V_SPLIT_N(n) ((void) 0)
#endif
#define BUF_INPUTS \
	INPUT(Length, argc); INPUT(Length, pos); V_INPUT_ARR(UByte, data, BUFCAP); \
	ASSUME(argc <= V_ARGC_MAX); \
	Buffer b = v_mk_buffer(argc, pos, data); UByte *argv0 = b->argv; \
	CONTRACT_PRE(PRE_bufRd(b))

void h_bufSetPosition(void)
{
	BUF_INPUTS; INPUT(Length, n);
	bufSetPosition(b, n);
	CONTRACT_POST("c_bufSetPosition.postcondition", POST_bufSetPosition(b, n, argc, argv0));
	VREACH();
}

void h_bufSkip(void)
{
	BUF_INPUTS; INPUT(Length, n);
	V_SPLIT_N(n);
	bufSkip(b, n);
	CONTRACT_POST("c_bufSkip.postcondition", POST_bufSkip(b, n, pos, argc, argv0));
	VREACH();
}

void h_bufGetn(void)
{
	BUF_INPUTS; INPUT(Length, n);
	V_SPLIT_N(n);
	String r = bufGetn(b, n);
	CONTRACT_POST("c_bufGetn.postcondition", POST_bufGetn(b, n, pos, argc, argv0, r));
	VREACH();
}

void h_bufGet1(void)
{
	BUF_INPUTS;
	UByte r = bufGet1(b);
	CONTRACT_POST("c_bufGet1.postcondition", POST_bufGet1(b, pos, argc, argv0, r));
	VREACH();
}

/* bufNext1 has no job: its only caller is os_win32.c (console input), not a library-file reader.
 * Run by hand it shows the read at pos == argc (outside the contents). */
void h_bufNext1(void)
{
	BUF_INPUTS;
	UByte r = bufNext1(b);
	CONTRACT_POST("c_bufNext1.postcondition", POST_bufNext1(b, pos, argc, argv0, r));
	VREACH();
}

void h_bufGetByte(void)
{
	BUF_INPUTS;
	UByte r = bufGetByte(b);
	CONTRACT_POST("c_bufGetByte.postcondition", POST_bufGetByte(b, pos, argc, argv0, r));
	VREACH();
}

void h_bufGetHInt(void)
{
	BUF_INPUTS;
	UShort r = bufGetHInt(b);
	CONTRACT_POST("c_bufGetHInt.postcondition", POST_bufGetHInt(b, pos, argc, argv0, r));
	VREACH();
}

void h_bufGetSInt(void)
{
	BUF_INPUTS;
	ULong r = bufGetSInt(b);
	CONTRACT_POST("c_bufGetSInt.postcondition", POST_bufGetSInt(b, pos, argc, argv0, r));
	VREACH();
}

void h_bufRdUByte(void)
{
	BUF_INPUTS;
	UByte r = bufRdUByte(b);
	CONTRACT_POST("c_bufRdUByte.postcondition", POST_bufGet1(b, pos, argc, argv0, r));
	VREACH();
}

void h_bufRdUShort(void)
{
	BUF_INPUTS;
	UShort r = bufRdUShort(b);
	CONTRACT_POST("c_bufRdUShort.postcondition", POST_bufGetHInt(b, pos, argc, argv0, r));
	VREACH();
}

void h_bufRdULong(void)
{
	BUF_INPUTS;
	ULong r = bufRdULong(b);
	CONTRACT_POST("c_bufRdULong.postcondition", POST_bufGetSInt(b, pos, argc, argv0, r));
	VREACH();
}

/* case split on whether a NUL exists in [pos,argc): V_TERMINATED / V_UNTERMINATED (= a truncated file) */
static int v_nul_in(const UByte *v, Length pos, Length argc)
{
	Length i;
	for (i = 0; i < BUFCAP; i++) if (i >= pos && i < argc && v[i] == 0) return 1;
	return 0;
}
#if defined(V_TERMINATED)
# define V_SPLIT_TERM(v, pos, argc) ASSUME(v_nul_in(v, pos, argc))
#elif defined(V_UNTERMINATED)   /* every path must refuse: the reachability marker goes BEFORE the call */
# define V_SPLIT_TERM(v, pos, argc) ASSUME(!v_nul_in(v, pos, argc)); VREACH()
#else
# define V_SPLIT_TERM(v, pos, argc) ((void) 0)
#endif

/* ---- readers with loops / allocation: obligations are harness-level CHECKs of the POST_ texts ---- */
void h_bufGets(void)
{
	BUF_INPUTS; INPUT(Length, gi);
	ASSUME(PRE_bufRd(b));
	V_SPLIT_TERM(argv0, pos, argc);
	String r = bufGets(b);
	Length k = b->pos - pos - 1;
	CHECK("bufGets: consumed the string and its terminator, all inside [pos,argc)", POST_bufGets(b, pos, argc, argv0, r, k));
	CHECK("bufGets: the terminator is the first NUL", gi < k ? argv0[pos + gi] != 0 : 1);
#ifndef V_UNTERMINATED
	VREACH();
#endif
}

void h_bufGetString(void)
{
	BUF_INPUTS; INPUT(Length, gi);
	ASSUME(PRE_bufRd(b));
	V_SPLIT_TERM(argv0, pos, argc);
	String r = bufGetString(b);
	Length k = b->pos - pos - 1;
	CHECK("bufGetString: consumed the string and its terminator, all inside [pos,argc)", BUF_RD_FRAME(b, pos, argc, argv0, k + 1) && argv0[pos + k] == 0);
	CHECK("bufGetString: result is a copy of the k bytes", r != 0 && (UByte *) r != argv0 + pos && r[k] == 0 && (gi < k ? (UByte) r[gi] == argv0[pos + gi] : 1));
#ifndef V_UNTERMINATED
	VREACH();
#endif
}

void h_bufGetChars(void)
{
	BUF_INPUTS; INPUT(Length, cc); INPUT(Length, gi);
	ASSUME(PRE_bufRd(b));
	ASSUME(cc <= V_NCH);                 /* the destination is the caller's: room for cc bytes */
	char dst[V_NCH + 1];
	bufGetChars(b, dst, cc);
	CHECK("bufGetChars: consumed exactly cc bytes inside [pos,argc)", POST_bufGetChars(b, cc, pos, argc, argv0));
	CHECK("bufGetChars: destination holds the bytes (up to an embedded NUL)",
	      gi < cc ? ((UByte) dst[gi] == argv0[pos + gi] || v_has_nul_before(argv0 + pos, gi)) : 1);
	VREACH();
}

void h_bufRdChars(void)
{
	BUF_INPUTS; INPUT(int, cc); INPUT(Length, gi);
	ASSUME(PRE_bufRd(b));
#if defined(V_CC_NONNEG)
	ASSUME(cc >= 0);
#elif defined(V_CC_NEG)     /* every path must refuse: the reachability marker goes BEFORE the call */
	ASSUME(cc < 0); VREACH();
#endif
	g_ix = gi;
	String r = bufRdChars(b, cc);
	CHECK("c_bufRdChars.postcondition", POST_bufRdChars(b, cc, pos, argc, argv0, r));
#ifndef V_CC_NEG
	VREACH();
#endif
}

/* case split on the sign of the 4-byte length word at pos (if it is there at all) */
#if defined(V_CC_NONNEG)
# define V_SPLIT_LW(v, pos, argc) ASSUME((pos) + 4 <= (argc) ? (int) DEC_LE4((v) + (pos)) >= 0 : 1)
#elif defined(V_CC_NEG)
# define V_SPLIT_LW(v, pos, argc) ASSUME((pos) + 4 <= (argc) && (int) DEC_LE4((v) + (pos)) < 0); VREACH()
#else
# define V_SPLIT_LW(v, pos, argc) ((void) 0)
#endif
void h_bufRdString(void)
{
	BUF_INPUTS; INPUT(Length, gi);
	ASSUME(PRE_bufRd(b));
	V_SPLIT_LW(argv0, pos, argc);
	String r = bufRdString(b);
	/* the length word is the file's: decode it with the spec */
	unsigned long lw = (pos + 4 <= argc) ? DEC_LE4(argv0 + pos) : 0;
	int cc = (int) lw;
	CHECK("bufRdString: length word inside contents, non-negative, and that many bytes consumed inside [pos,argc)",
	      pos + 4 <= argc && cc >= 0 && BUF_RD_FRAME(b, pos, argc, argv0, 4 + (Length) cc));
	CHECK("bufRdString: result NUL-terminated copy", r != 0 && r[cc] == 0 &&
	      (gi < (Length) cc ? ((UByte) r[gi] == argv0[pos + 4 + gi] || v_has_nul_before(argv0 + pos + 4, gi)) : 1));
#ifndef V_CC_NEG
	VREACH();
#endif
}

void h_bufRdBuffer(void)
{
	BUF_INPUTS; INPUT(Length, gi);
	ASSUME(PRE_bufRd(b));
	V_SPLIT_LW(argv0, pos, argc);
	Buffer r = bufRdBuffer(b);
	unsigned long lw = (pos + 4 <= argc) ? DEC_LE4(argv0 + pos) : 0;
	int cc = (int) lw;
	CHECK("bufRdBuffer: length word inside contents, non-negative, and that many bytes consumed inside [pos,argc)",
	      pos + 4 <= argc && cc >= 0 && BUF_RD_FRAME(b, pos, argc, argv0, 4 + (Length) cc));
	CHECK("bufRdBuffer: result is a well-formed buffer of cc bytes at position 0", r != 0 && r->pos == 0 && r->argc == (Length) cc);
#ifndef V_CC_NEG
	VREACH();
#endif
}

void h_bufRdSFloat(void)
{
	BUF_INPUTS;
	ASSUME(PRE_bufRd(b));
	(void) bufRdSFloat(b);
	CHECK("bufRdSFloat: consumed XSFLOAT_BYTES inside [pos,argc)", BUF_RD_FRAME(b, pos, argc, argv0, XSFLOAT_BYTES));
	VREACH();
}

void h_bufRdDFloat(void)
{
	BUF_INPUTS;
	ASSUME(PRE_bufRd(b));
	(void) bufRdDFloat(b);
	CHECK("bufRdDFloat: consumed XDFLOAT_BYTES inside [pos,argc)", BUF_RD_FRAME(b, pos, argc, argv0, XDFLOAT_BYTES));
	VREACH();
}

#ifdef NATIVE_REPLAY
V_NATIVE_MAIN(ENTRY)
#endif
