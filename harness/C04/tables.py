"""Read the builtin tables from the REAL sources on every run (foam.c: foamBValInfoTable, genc.c: ccBValInfoTable)."""
import os, re

SRC = os.path.join(os.environ.get("ALDOR_REPO", "/repo"), "aldor/aldor/src")


def _strip_comments(t):
    return re.sub(r"/\*.*?\*/", " ", t, flags=re.S)


def _table_text(path, name):
    t = _strip_comments(open(path, encoding="latin-1").read())
    m = re.search(r"%s\s*\[\s*\]\s*=\s*\{" % re.escape(name), t)
    if not m:
        raise RuntimeError("table %s not found in %s" % (name, path))
    i = m.end()
    depth = 1
    j = i
    while depth:
        c = t[j]
        if c == '"':
            j += 1
            while t[j] != '"':
                if t[j] == "\\":
                    j += 1
                j += 1
        elif c == "{":
            depth += 1
        elif c == "}":
            depth -= 1
        j += 1
    return t[i:j - 1]


def _entries(body):
    """top-level {...} entries"""
    out, depth, start = [], 0, None
    i = 0
    while i < len(body):
        c = body[i]
        if c == '"':
            i += 1
            while body[i] != '"':
                if body[i] == "\\":
                    i += 1
                i += 1
        elif c == "{":
            if depth == 0:
                start = i + 1
            depth += 1
        elif c == "}":
            depth -= 1
            if depth == 0:
                out.append(body[start:i])
        i += 1
    return out


def _split_top(s):
    parts, depth, cur = [], 0, ""
    i = 0
    while i < len(s):
        c = s[i]
        if c == '"':
            j = i + 1
            while s[j] != '"':
                if s[j] == "\\":
                    j += 1
                j += 1
            cur += s[i:j + 1]
            i = j + 1
            continue
        if c == "{":
            depth += 1
        if c == "}":
            depth -= 1
        if c == "," and depth == 0:
            parts.append(cur.strip())
            cur = ""
        else:
            cur += c
        i += 1
    if cur.strip():
        parts.append(cur.strip())
    return parts


def foam_bvals():
    """-> list of dict(name, argc, argtypes, ret, retc)"""
    res = []
    for e in _entries(_table_text(os.path.join(SRC, "foam.c"), "foamBValInfoTable")):
        p = _split_top(e)
        if len(p) < 8 or not p[0].startswith("FOAM_BVal_"):
            continue
        name = p[0][len("FOAM_BVal_"):]
        argc = int(p[4], 0)
        types = [x.strip() for x in p[5].strip("{} \t\n").split(",") if x.strip()]
        types = [x[len("FOAM_"):] if x.startswith("FOAM_") else x for x in types][:argc]
        ret = p[6].strip()
        ret = ret[len("FOAM_"):] if ret.startswith("FOAM_") else ret
        res.append({"name": name, "argc": argc, "argtypes": types, "ret": ret, "retc": int(p[7], 0),
                    "sidefx": p[3].strip()})
    return res


def genc_bvals():
    """-> dict name -> dict(cfun, special, str, macro)"""
    res = {}
    for e in _entries(_table_text(os.path.join(SRC, "genc.c"), "ccBValInfoTable")):
        p = _split_top(e)
        if len(p) < 5 or not p[0].startswith("FOAM_BVal_"):
            continue
        name = p[0][len("FOAM_BVal_"):]

        def unq(x):
            x = x.strip()
            if x.startswith('"'):
                return bytes(x[1:-1], "latin-1").decode("unicode_escape")
            return None if x == "0" else x
        res[name] = {"cfun": p[1].strip(), "special": int(p[2], 0), "str": unq(p[3]), "macro": unq(p[4])}
    return res


if __name__ == "__main__":
    fb = foam_bvals()
    gb = genc_bvals()
    print(len(fb), len(gb))
    for b in fb:
        g = gb.get(b["name"], {})
        print("%-18s %d %-28s -> %-5s x%d  %-10s %d %s" % (b["name"], b["argc"], ",".join(b["argtypes"]), b["ret"], b["retc"],
                                                 g.get("cfun"), g.get("special", -1), g.get("str")))
