"""
C04 generator.  On every run it reads the REAL builtin tables (foam.c foamBValInfoTable for arity and
operand/result types; genc.c ccBValInfoTable and ccode.c's operator spellings for the C mapping) and emits

  gen_fold.c  : #include "foam.c" + "of_cfold.c"  (real text) + one harness per builtin for cfoldBCall
  gen_fint.c  : #include "fint.c"                 (real text) + one harness per builtin for fintEvalBCall,
                operands supplied through the contract c_fintEval that REPLACES fintEval
  gen_rt.c    : the C-runtime expression genc emits for the builtin (a one-line wrapper over the Fi* typedefs of
                the real foam_c.h; functions such as fiSIntGcd come from the real foam_c.c, linked)

Oracle: SPEC[op] below, a pure C expression over mathematical operands a,b,c written from the definition of
the operation, with an optional domain PRE[op] where the language leaves the value open.  Where no SPEC is
given (floats, platform constants, hash) the obligation is agreement with the runtime expression instead.
"""
import os
import re
import sys

sys.path.insert(0, os.path.dirname(os.path.abspath(__file__)))
import tables  # noqa: E402

SRC = tables.SRC

CTYPE = {"BInt": "FiBInt", "Bool": "FiBool", "Char": "FiChar", "SInt": "FiSInt", "HInt": "FiHInt", "Byte": "FiByte",
         "Word": "FiWord", "Ptr": "FiPtr", "SFlo": "FiSFlo", "DFlo": "FiDFlo"}
# C type used for the mathematical operand in the harness
HTYPE = {"BInt": "unsigned long", "Bool": "long", "Char": "long", "SInt": "long", "HInt": "long", "Byte": "long",
         "Word": "unsigned long", "Ptr": "unsigned long", "SFlo": "float", "DFlo": "double"}
# domain of each operand type (the property's domain: both booleans, the 128 ASCII characters, full machine ranges)
DOM = {"BInt": "1", "Bool": "({x} == 0 || {x} == 1)", "Char": "({x} >= 0 && {x} <= 127)", "SInt": "1",
       "HInt": "({x} >= -32768 && {x} <= 32767)", "Byte": "({x} >= 0 && {x} <= 255)", "Word": "1", "Ptr": "1",
       "SFlo": "1", "DFlo": "1"}
NODE_FIELD = {"BInt": "foamBInt.BIntData", "Bool": "foamBool.BoolData", "Char": "foamChar.CharData", "SInt": "foamSInt.SIntData",
              "HInt": "foamHInt.HIntData", "Byte": "foamByte.ByteData", "Word": "foamWord.data",
              "SFlo": "foamSFlo.SFloData", "DFlo": "foamDFlo.DFloData", "Ptr": "foamPtr.val"}
OBJ_FIELD = {"BInt": "fiBInt", "Bool": "fiBool", "Char": "fiChar", "SInt": "fiSInt", "HInt": "fiHInt", "Byte": "fiByte",
             "Word": "fiWord", "Ptr": "fiPtr", "SFlo": "fiSFlo", "DFlo": "fiDFlo"}

W = "((long)((unsigned long)(%s)))"          # two's complement wrap of an unsigned-long expression
U = "(unsigned long)"
MIN = "(-0x7fffffffffffffffL - 1)"

SPEC = {
    # booleans on {0,1}
    "BoolFalse": "0", "BoolTrue": "1", "BoolNot": "(a == 0)", "BoolAnd": "(a != 0 && b != 0)",
    "BoolOr": "(a != 0 || b != 0)", "BoolEQ": "((a != 0) == (b != 0))", "BoolNE": "((a != 0) != (b != 0))",
    # characters on 0..127, classes by range arithmetic (not <ctype.h>)
    "CharSpace": "32", "CharNewline": "10", "CharTab": "9",
    "CharIsDigit": "(a >= 48 && a <= 57)",
    "CharIsLetter": "((a >= 65 && a <= 90) || (a >= 97 && a <= 122))",
    "CharEQ": "(a == b)", "CharNE": "(a != b)", "CharLT": "(a < b)", "CharLE": "(a <= b)",
    "CharLower": "((a >= 65 && a <= 90) ? a + 32 : a)", "CharUpper": "((a >= 97 && a <= 122) ? a - 32 : a)",
    "CharOrd": "a", "CharNum": "a",
    # machine integers: two's complement 64-bit wrap of the integer result
    "Byte0": "0", "Byte1": "1", "ByteMin": "0", "ByteMax": "255",
    "HInt0": "0", "HInt1": "1", "HIntMin": "(-32768)", "HIntMax": "32767",
    "SInt0": "0", "SInt1": "1", "SIntMin": MIN, "SIntMax": "0x7fffffffffffffffL",
    "SIntIsZero": "(a == 0)", "SIntIsNeg": "(a < 0)", "SIntIsPos": "(a > 0)",
    "SIntIsEven": "((%sa & 1UL) == 0)" % U, "SIntIsOdd": "((%sa & 1UL) == 1)" % U,
    "SIntEQ": "(a == b)", "SIntNE": "(a != b)", "SIntLT": "(a < b)", "SIntLE": "(a <= b)",
    "SIntNegate": W % ("0UL - %sa" % U), "SIntPrev": W % ("%sa - 1UL" % U), "SIntNext": W % ("%sa + 1UL" % U),
    "SIntPlus": W % ("%sa + %sb" % (U, U)), "SIntMinus": W % ("%sa - %sb" % (U, U)),
    # products: the spec is the machine product itself (CBMC: two's complement wrap); what is proved is that each
    # evaluator forms exactly this product of exactly these operands (the 64-bit multiplier is one shared SMT term)
    "SIntTimes": "(a * b)", "SIntTimesPlus": "(a * b + c)",
    "SIntMod": "(a % b)",      # only claimed on 0 <= a, 0 < b (PRE)
    "SIntQuo": "(a / b)",      # C99 6.5.5: truncation toward zero
    "SIntRem": "(a % b)",      # C99 6.5.5: (a/b)*b + a%b == a, so the sign of the dividend
    # modular sum/difference of residues 0 <= a,b < c, written without any intermediate that can overflow
    "SIntPlusMod": "(a >= c - b ? a - (c - b) : a + b)",
    "SIntMinusMod": "(a >= b ? a - b : a - b + c)",
    "SIntTimesMod": "((long)(((__int128)a * (__int128)b) % (__int128)c))",
    "SIntShiftUp": W % ("%sa << b" % U),
    "SIntShiftDn": "(a >= 0 ? (long)(%sa >> b) : ~(long)(%s(~a) >> b))" % (U, U),   # floor(a / 2^b)
    "SIntBit": "(((%sa >> b) & 1UL) != 0)" % U,
    "SIntNot": "(~a)", "SIntAnd": "(a & b)", "SIntOr": "(a | b)", "SIntXOr": "(a ^ b)",
    "SIntLength": "v_bitlen(a)",
    # conversions
    "ByteToSInt": "a", "SIntToByte": "a", "HIntToSInt": "a", "SIntToHInt": "a",
    # pointers as words
    "PtrNil": "0", "PtrIsNil": "(a == 0)", "PtrEQ": "(a == b)", "PtrNE": "(a != b)",
    "PtrToSInt": "(long)a", "SIntToPtr": "(unsigned long)a",
}

# domain where the mathematical clause is claimed; outside it only evaluator agreement is claimed
PRE = {
    "SIntMod": "(a >= 0 && b > 0)",
    "SIntQuo": "(b != 0 && !(a == %s && b == -1))" % MIN,
    "SIntRem": "(b != 0 && !(a == %s && b == -1))" % MIN,
    "SIntPlusMod": "(c > 0 && a >= 0 && a < c && b >= 0 && b < c)",
    "SIntMinusMod": "(c > 0 && a >= 0 && a < c && b >= 0 && b < c)",
    "SIntTimesMod": "(c > 0 && a >= 0 && a < c && b >= 0 && b < c)",
    "SIntShiftUp": "(b >= 0 && b < 64)", "SIntShiftDn": "(b >= 0 && b < 64)",
    "SIntBit": "(b >= 0 && b < 63)",
    "SIntLength": "(a >= 0)",
    "SIntToByte": "(a >= 0 && a <= 255)", "SIntToHInt": "(a >= -32768 && a <= 32767)",
    "CharNum": "(a >= 0 && a <= 127)",
}
# Known-finding splits: the mathematical clause is emitted as TWO obligations, one on the operand class where the
# evaluators are right today (must keep passing) and one on the class recorded in known_findings.txt.
SPLIT = {
    "SIntPlusMod": ("(a <= 0x7fffffffffffffffL - b)", "a+b exceeds the machine word"),
    "SIntMinusMod": ("(a >= b)", "a < b"),
    "SIntTimesMod": ("(a < 0x80000000L && b < 0x80000000L)", "a*b exceeds the machine word"),
}

# operand domain of the builtin itself: outside it nothing is claimed (not even agreement)
DOMAIN = {
    "CharNum": "(a >= 0 && a <= 127)", "SIntToByte": "(a >= 0 && a <= 255)", "SIntToHInt": "(a >= -32768 && a <= 32767)",
}
# where even agreement is undefined (division by zero traps in all three): operands excluded altogether
EXCLUDE = {
    "SIntMod": "(b != 0 && !(a == %s && b == -1))" % MIN,
    "SIntQuo": "(b != 0 && !(a == %s && b == -1))" % MIN,
    "SIntRem": "(b != 0 && !(a == %s && b == -1))" % MIN,
    "SIntPlusMod": "(c != 0 && c != -1)", "SIntMinusMod": "(c != 0 && c != -1)", "SIntTimesMod": "(c != 0 && c != -1)",
    "SIntShiftUp": "(b >= 0 && b < 64)", "SIntShiftDn": "(b >= 0 && b < 64)", "SIntBit": "(b >= 0 && b < 64)",
}

# float groups: no mathematical spec, structural agreement only
FLOAT_AGREE = ["SFlo0", "SFlo1", "SFloIsZero", "SFloIsNeg", "SFloIsPos", "SFloEQ", "SFloNE", "SFloLT", "SFloLE",
               "SFloNegate", "SFloPlus", "SFloMinus", "SFloTimes", "SFloDivide", "SFloTimesPlus",
               "DFlo0", "DFlo1", "DFloIsZero", "DFloIsNeg", "DFloIsPos", "DFloEQ", "DFloNE", "DFloLT", "DFloLE",
               "DFloNegate", "DFloPlus", "DFloMinus", "DFloTimes", "DFloDivide", "DFloTimesPlus",
               "SFloRPlus", "SFloRMinus", "SFloRTimes", "SFloRDivide", "DFloRPlus", "DFloRMinus", "DFloRTimes", "DFloRDivide",
               "SIntToSFlo", "SIntToDFlo", "SFloToDFlo", "DFloToSFlo"]
# big-integer builtins: each evaluator must reach the SAME bigint.c operation with the SAME operands in the SAME
# order; bigint.c itself is an uninterpreted function here (its arithmetic is property C11's business)
BINT_AGREE = ["BInt0", "BInt1", "BIntIsZero", "BIntIsNeg", "BIntIsPos", "BIntIsEven", "BIntIsOdd", "BIntIsSingle",
              "BIntEQ", "BIntNE", "BIntLT", "BIntLE", "BIntNegate", "BIntPrev", "BIntNext", "BIntPlus", "BIntMinus",
              "BIntTimes", "BIntTimesPlus", "BIntLength", "BIntShiftUp", "BIntShiftDn", "BIntShiftRem", "BIntBit",
              "SIntToBInt"]
AGREE_ONLY = ["CharMin", "CharMax", "SIntGcd", "SIntHashCombine"] + FLOAT_AGREE + BINT_AGREE

SCALAR = set(CTYPE)   # (includes BInt: an opaque handle for the agreement obligations)


def in_scope(b):
    return (b["retc"] == 1 and b["ret"] in SCALAR and all(t in SCALAR for t in b["argtypes"])
            and (b["name"] in SPEC or b["name"] in AGREE_ONLY))


# --------------------------------------------------------------------------
def cco_ops():
    t = tables._strip_comments(open(os.path.join(SRC, "ccode.c"), encoding="latin-1").read())
    ops = {}
    for m in re.finditer(r'\{\s*(CCO_\w+)\s*,\s*CCOK_(\w+)\s*,\s*\d+\s*,\s*\d+\s*,\s*"([^"]*)"', t):
        ops[m.group(1)] = (m.group(2), m.group(3))
    return ops


def gc_types():
    t = open(os.path.join(SRC, "genc.c"), encoding="latin-1").read()
    return dict(re.findall(r'#define\s+(gcFi\w+)\s+"(\w+)"', t))


def rt_expr(b, g, ops, gct):
    """The C expression genc emits for builtin b (extracted from the data table; see DESIGN: drops gc0TryCast
    operand casts, the USE_MACROS statement form and statement sequencing).  None if not expressible."""
    n = b["argc"]
    args = ["x%d" % i for i in range(n)]
    cfun, spec, s = g["cfun"], g["special"], g["str"]
    if cfun in ("CCO_Id", "CCO_FloatVal", "CCO_IntVal", "CCO_CharVal"):
        return s
    if cfun == "CCO_FCall":
        if spec != 0:
            # gc0FCall's hand-written special cases (re-expressed from genc.c:gc0FCall)
            if b["name"] in ("BIntIsEven", "BIntIsOdd"):
                return "%s(fiBIntMod(%s, fiBIntNew(2)), fiBInt0())" % (s, args[0])
            if b["name"] in ("BIntPrev", "BIntNext"):
                return "%s(%s, fiBInt1())" % (s, args[0])
            return None
        return "%s(%s)" % (s, ", ".join(args))
    if cfun == "CCO_Cast":
        ty = gct.get(s, s)
        return "((%s) %s)" % (ty, args[0])
    if cfun not in ops:
        return None
    kind, sp = ops[cfun]
    if spec == 0:
        if kind == "Prefix":
            return "(%s%s)" % (sp, args[0])
        if kind == "Infix":
            return "(" + sp.join(args) + ")"
        return None
    if spec == 1:
        return "(%s%s%s)" % (args[0], sp, s)
    if b["name"] in ("SIntIsEven", "SIntIsOdd"):
        return "((%s %% 2)%s0)" % (args[0], sp)
    if b["name"] in ("SIntPlusMod", "SIntMinusMod", "SIntTimesMod"):
        return "((%s%s%s) %% %s)" % (args[0], sp, args[1], args[2])
    return None


COMMON = r'''
/* ---- generated by harness/C04/gen.py: do not edit ---- */
static long v_bitlen(long a)      /* number of binary digits of a >= 0, loop-free */
{
	unsigned long x = (unsigned long) a; long n = 0;
	if (x >> 32) { n += 32; x >>= 32; }
	if (x >> 16) { n += 16; x >>= 16; }
	if (x >> 8)  { n += 8;  x >>= 8; }
	if (x >> 4)  { n += 4;  x >>= 4; }
	if (x >> 2)  { n += 2;  x >>= 2; }
	if (x >> 1)  { n += 1;  x >>= 1; }
	return n + (long) x;
}
static int v_same_f(float x, float y) { unsigned a, b; memcpy(&a, &x, 4); memcpy(&b, &y, 4);
	return a == b || ((x != x) && (y != y)); }
static int v_same_d(double x, double y) { unsigned long a, b; memcpy(&a, &x, 8); memcpy(&b, &y, 8);
	return a == b || ((x != x) && (y != y)); }
'''


BINT_UF = r'''
/* ---- bigint.c as UNINTERPRETED functions (it is not linked): equal operands give equal results, nothing else ---- */
#ifndef NATIVE_REPLAY
unsigned long __CPROVER_uninterpreted_bint1(int op, unsigned long a);
unsigned long __CPROVER_uninterpreted_bint2(int op, unsigned long a, unsigned long b);
BInt bint0 = (BInt) 0x1000, bint1 = (BInt) 0x2000;
BInt  bintNew(long n)            { return (BInt) __CPROVER_uninterpreted_bint1(1, (unsigned long) n); }
Bool  bintIsNeg(BInt a)          { return __CPROVER_uninterpreted_bint1(2, (unsigned long) a) != 0; }
Bool  bintIsZero(BInt a)         { return __CPROVER_uninterpreted_bint1(3, (unsigned long) a) != 0; }
Bool  bintIsPos(BInt a)          { return __CPROVER_uninterpreted_bint1(4, (unsigned long) a) != 0; }
Bool  bintEQ(BInt a, BInt b)     { return __CPROVER_uninterpreted_bint2(5, (unsigned long) a, (unsigned long) b) != 0; }
Bool  bintLT(BInt a, BInt b)     { return __CPROVER_uninterpreted_bint2(6, (unsigned long) a, (unsigned long) b) != 0; }
Bool  bintGT(BInt a, BInt b)     { return __CPROVER_uninterpreted_bint2(7, (unsigned long) a, (unsigned long) b) != 0; }
BInt  bintNegate(BInt a)         { return (BInt) __CPROVER_uninterpreted_bint1(8, (unsigned long) a); }
BInt  bintPlus(BInt a, BInt b)   { return (BInt) __CPROVER_uninterpreted_bint2(9, (unsigned long) a, (unsigned long) b); }
BInt  bintMinus(BInt a, BInt b)  { return (BInt) __CPROVER_uninterpreted_bint2(10, (unsigned long) a, (unsigned long) b); }
BInt  bintTimes(BInt a, BInt b)  { return (BInt) __CPROVER_uninterpreted_bint2(11, (unsigned long) a, (unsigned long) b); }
BInt  bintMod(BInt a, BInt b)    { return (BInt) __CPROVER_uninterpreted_bint2(12, (unsigned long) a, (unsigned long) b); }
Length bintLength(BInt a)        { return (Length) __CPROVER_uninterpreted_bint1(13, (unsigned long) a); }
Bool  bintBit(BInt a, Length ix) { return __CPROVER_uninterpreted_bint2(14, (unsigned long) a, (unsigned long) ix) != 0; }
BInt  bintShift(BInt a, int n)   { return (BInt) __CPROVER_uninterpreted_bint2(15, (unsigned long) a, (unsigned long) (long) n); }
BInt  bintShiftRem(BInt a, int n){ return (BInt) __CPROVER_uninterpreted_bint2(16, (unsigned long) a, (unsigned long) (long) n); }
#endif
'''


def cmp_expr(ty, got, want):
    if ty == "SFlo":
        return "v_same_f((float)(%s), (float)(%s))" % (got, want)
    if ty == "DFlo":
        return "v_same_d((double)(%s), (double)(%s))" % (got, want)
    if ty in ("Ptr", "Word", "BInt"):
        return "((unsigned long)(%s) == (unsigned long)(%s))" % (got, want)
    return "((long)(%s) == (long)(%s))" % (got, want)


def decl_inputs(b, variant=None):
    out = decl_inputs0(b)
    if variant:
        # operand class by ASSIGNMENT (so that symbolic execution sees constants), not by assumption
        out.append("\t%s" % variant)
    return out


def decl_inputs0(b):
    out = []
    names = "abcd"
    for i, t in enumerate(b["argtypes"]):
        out.append("\tINPUT(%s, %s);" % (HTYPE[t], names[i]))
        if DOM[t] != "1":
            out.append("\tASSUME(%s);" % DOM[t].format(x=names[i]))
    if b["name"] in EXCLUDE:
        out.append("\tASSUME(%s);" % EXCLUDE[b["name"]])
    if b["name"] in DOMAIN:
        out.append("\tASSUME(%s);" % DOMAIN[b["name"]])
    return out


def rt_call(b):
    names = "abcd"
    args = []
    for i, t in enumerate(b["argtypes"]):
        args.append("(%s) %s" % (CTYPE[t], names[i]))
    return "rt_%s(%s)" % (b["name"], ", ".join(args))


def gen_rt_wrappers(bs, gb, ops, gct):
    out = ["/* C-runtime expression of each builtin, extracted from the REAL genc.c ccBValInfoTable + ccode.c operator table */"]
    have = set()
    for b in bs:
        g = gb.get(b["name"])
        if not g:
            continue
        e = rt_expr(b, g, ops, gct)
        if e is None:
            continue
        params = ", ".join("%s x%d" % (CTYPE[t], i) for i, t in enumerate(b["argtypes"])) or "void"
        out.append("static %s rt_%s(%s) { return %s; }" % (CTYPE[b["ret"]], b["name"], params, e))
        have.add(b["name"])
    return "\n".join(out) + "\n", have


def expect(b, have_rt, who):
    """(want-expression, guard, label) list for this builtin"""
    name = b["name"]
    res = []
    if name == "SIntTimesMod" and who != "runtime":
        pass   # (a*b)%c against a 128-bit product: not decided by z3 in 400 s either way; agreement clause only
    elif name in SPEC and name in SPLIT:
        cond, label = SPLIT[name]
        res.append((SPEC[name], "%s && %s" % (PRE.get(name, "1"), cond), "%s %s == mathematical definition" % (who, name)))
        res.append((SPEC[name], "%s && !%s" % (PRE.get(name, "1"), cond),
                    "%s %s == mathematical definition [operand class: %s]" % (who, name, label)))
    elif name in SPEC:
        res.append((SPEC[name], PRE.get(name, "1"), "%s %s == mathematical definition" % (who, name)))
    if name in have_rt and who != "runtime":
        res.append((rt_call(b), "1", "%s %s == C runtime expression" % (who, name)))
    return res


def gen_fold(bs, have_rt):
    o = []
    for b in bs:
        name = b["name"]
        o.append("void h_fold_%s(void)\n{" % name)
        o += decl_inputs(b)
        o.append("\tfoamIsInit = 1; cfoldFoldAll = 1; cfoldFoldFloat = 1;")
        o.append("\tstruct foamBCall sb; memset(&sb, 0, sizeof sb);")
        o.append("\tsb.hdr.tag = FOAM_BCall; sb.hdr.argc = %d; sb.op = FOAM_BVal_%s;" % (b["argc"] + 1, name))
        for i, t in enumerate(b["argtypes"]):
            v = "abcd"[i]
            st = NODE_FIELD[t].split(".")[0]
            fld = NODE_FIELD[t].split(".")[1]
            o.append("\t{ struct %s s; Foam n = v_node(sizeof s); memset(&s, 0, sizeof s); s.hdr.tag = FOAM_%s; s.hdr.argc = 1; s.%s = %s%s; n->%s = s; sb.argv[%d] = n; }" % (
                st, t, fld, "(Foam) " if t == "Ptr" else ("(BInt) " if t == "BInt" else ""), v, st, i))
        o.append("\tFoam bc = v_node(sizeof sb); bc->foamBCall = sb;")
        o.append("\tFoam r = cfoldBCall(bc);")
        o.append("\t__CPROVER_assert(r == bc, \"VCOVER fold %s: the folder rewrites this builtin\");" % name
                 if True else "")
        o.append("\tif (r != bc) {")
        if b["ret"] == "Ptr":
            o.append("\t\tCHECK(\"fold %s: result node has the builtin's result type\", foamTag(r) == FOAM_Ptr || foamTag(r) == FOAM_Nil);" % name)
        else:
            o.append("\t\tCHECK(\"fold %s: result node has the builtin's result type\", foamTag(r) == FOAM_%s);" % (name, b["ret"]))
        for want, guard, label in expect(b, have_rt, "fold"):
            got = "r->%s" % NODE_FIELD[b["ret"]]
            if b["ret"] == "Ptr":
                got = "(foamTag(r) == FOAM_Nil ? (Foam) 0 : r->foamPtr.val)"
            o.append("\t\tif (%s) CHECK(\"%s\", %s);" % (guard, label, cmp_expr(b["ret"], got, want)))
        o.append("\t}")
        o.append("\tVREACH();\n}\n")
    return "\n".join(o)


def gen_fint(bs, have_rt):
    o = []
    for b0 in bs:
      for vname, vcond in [(None, None)] + VARIANTS.get(b0["name"], []):
        b = b0
        name = b["name"]
        o.append("void h_fint_%s%s(void)\n{" % (name, "__" + vname if vname else ""))
        o += decl_inputs(b, vcond)
        o.append("\tunion dataObj ret; dataType ty; int op = FOAM_BVal_%s - FOAM_BVAL_START;" % name)
        o.append("\tv_fint_tape(op);")
        for i, t in enumerate(b["argtypes"]):
            v = "abcd"[i]
            o.append("\t{ INPUT(unsigned long, junk%d); g_arg[%d].fiWord = junk%d; g_arg[%d].%s = (%s) %s; g_ty[%d] = FOAM_%s; }" % (
                i, i, i, i, OBJ_FIELD[t], CTYPE[t], v, i, t))
        o.append("\tg_k = 0;")
        o.append("\tty = fintEvalBCall(&ret);")
        o.append("\tCHECK(\"interp %s: consumed exactly its operands\", g_k == %d);" % (name, b["argc"]))
        o.append("\tCHECK(\"interp %s: result type\", ty == FOAM_%s);" % (name, b["ret"]))
        for want, guard, label in expect(b, have_rt, "interp"):
            got = "ret.%s" % OBJ_FIELD[b["ret"]]
            o.append("\tif (%s) CHECK(\"%s\", %s);" % (guard, label, cmp_expr(b["ret"], got, want)))
        o.append("\tVREACH();\n}\n")
    return "\n".join(o)


def gen_rt(bs, have_rt):
    o = []
    for b in bs:
        name = b["name"]
        if name not in have_rt or name not in SPEC:
            continue
        o.append("void h_rt_%s(void)\n{" % name)
        o += decl_inputs(b)
        o.append("\t%s r = %s;" % (CTYPE[b["ret"]], rt_call(b)))
        for want, guard, label in expect(b, have_rt, "runtime"):
            o.append("\tif (%s) CHECK(\"%s\", %s);" % (guard, label, cmp_expr(b["ret"], "r", want)))
        o.append("\tVREACH();\n}\n")
    return "\n".join(o)


FOLD_HEAD = r'''
#include "foam.c"
#include "of_cfold.c"
#include "vharness.h"
#define V_STUB_BUG_UNREACHABLE
#define V_STUB_CTYPE_C_LOCALE   /* isdigit/isalpha only: toupper/tolower are the REAL tables of stdc.c (CC_broken_toupper) */
#define V_STUB_STO
#include "stubs.h"
#include <string.h>
#include "foam_c.h"
/* operand and call nodes are real `union foam` members, each written as ONE whole-struct assignment into an object
 * of exactly that member's size (this is what lets symbolic execution resolve cfoldBCall's 250-way switch) */
static Foam v_node(unsigned long size)
{
	Foam f = (Foam) malloc(size);
#ifndef NATIVE_REPLAY
	__CPROVER_assume(f != 0);
#endif
	return f;
}
'''

FINT_HEAD = r'''
/* fint.c is the REAL text except for ONE mechanical edit made on every run (tools/vlib.py splice "_rename_def"):
 * the name token in the DEFINITION of the 3-line wrapper fintEval() is renamed to fintEval__real, so that the 300
 * calls of fintEval in the unit bind to the operand-stream model below (the unit's own prototype is kept). */
#include "fint.c"
#include "vharness.h"
#define V_STUB_BUG_UNREACHABLE
#define V_STUB_CTYPE_C_LOCALE   /* isdigit/isalpha only: toupper/tolower are the REAL tables of stdc.c (CC_broken_toupper) */
#include "stubs.h"
#include <string.h>
/* ghost operand stream standing in for the evaluation of operand sub-expressions */
union dataObj g_arg[4];
dataType g_ty[4];
int g_k;
local dataType fintEval(DataObj retDataObj)
{
	dataType t;
	CHECK("interp: no more operands evaluated than the builtin has", g_k >= 0 && g_k < 4);
	*retDataObj = g_arg[g_k];
	t = g_ty[g_k];
	g_k++;
	return t;
}
#ifdef NATIVE_REPLAY
/* the native replay links the real library for everything else */
#endif
static UByte g_tape[8];
static void v_fint_tape(int op)
{
	/* the op code as the tape holds it: the inverse of fintGetHInt / fintGetByte, found by trying the real
	 * decoder macro on both byte orders */
#if SMALL_BVAL_TAGS
	g_tape[0] = (UByte) op;
#else
	g_tape[0] = (UByte) (op & 0xff); g_tape[1] = (UByte) ((op >> 8) & 0xff);
	if (UNBYTE2(g_tape[0], g_tape[1]) != op) { g_tape[1] = (UByte) (op & 0xff); g_tape[0] = (UByte) ((op >> 8) & 0xff); }
#endif
	tape = g_tape; ip = 0;
}
'''

RT_HEAD = r'''
#include "axlgen.h"
#include "foam_c.h"
#include "vharness.h"
#define V_STUB_CTYPE_C_LOCALE   /* isdigit/isalpha only: toupper/tolower are the REAL tables of stdc.c (CC_broken_toupper) */
#include "stubs.h"
#include <string.h>
'''


# operand-class variants: the same obligations on a class of operands on which the float circuits stay small
# enough for the solver (full-domain float multiply/divide agreement is undecided: 900 s+ on SAT and z3)
VARIANTS = {
    "DFloRPlus": [("b0_nearest", "b = 0.0; c = 1;")], "DFloRMinus": [("b0_nearest", "b = 0.0; c = 1;")],
    "DFloRTimes": [("b1_nearest", "b = 1.0; c = 1;")], "DFloRDivide": [("b1_nearest", "b = 1.0; c = 1;")],
    "SFloRPlus": [("b0_nearest", "b = 0.0f; c = 1;")], "SFloRMinus": [("b0_nearest", "b = 0.0f; c = 1;")],
    "SFloRTimes": [("b1_nearest", "b = 1.0f; c = 1;")], "SFloRDivide": [("b1_nearest", "b = 1.0f; c = 1;")],
}

# canaries: the spec deliberately wrong in the way the property cares about; each must be refuted
CANARY = {
    "SIntPlus": W % ("%sa - %sb" % (U, U)),                 # wrong operator
    "BoolAnd": "(a != 0 || b != 0)",                        # and/or confusion
    "CharLT": "(a <= b)",                                   # off-by-one in an order
    "SIntIsOdd": "((a % 2) == 1)",                          # wrong for negative odd numbers
    "SIntShiftDn": "((long)(%sa >> b))" % U,                # logical instead of arithmetic shift
    "SIntBit": "(((%sa >> (b + 1)) & 1UL) != 0)" % U,       # bit index off by one
}


# canaries for the agreement-only (big integer) obligations: the C-runtime expression deliberately wrong
CANARY_RT = {
    "BIntMinus": "fiBIntMinus(x1, x0)",        # operands swapped
    "BIntShiftDn": "fiBIntShiftUp(x0, x1)",    # wrong direction
    "BIntNext": "fiBIntPlus(x0, fiBInt0())",   # wrong constant
}


def generate(outdir):
    os.makedirs(outdir, exist_ok=True)
    fb = tables.foam_bvals()
    gb = tables.genc_bvals()
    ops = cco_ops()
    gct = gc_types()
    bs = [b for b in fb if in_scope(b)]
    wr, have_rt = gen_rt_wrappers(bs, gb, ops, gct)
    tail = "\n#ifdef NATIVE_REPLAY\nV_NATIVE_MAIN(ENTRY)\n#endif\n"
    with open(os.path.join(outdir, "gen_fold.c"), "w") as f:
        f.write(FOLD_HEAD + COMMON + BINT_UF + wr + gen_fold(bs, have_rt) + tail)
    with open(os.path.join(outdir, "gen_fint.c"), "w") as f:
        f.write(FINT_HEAD + COMMON + BINT_UF + wr + gen_fint(bs, have_rt) + tail)
    with open(os.path.join(outdir, "gen_rt.c"), "w") as f:
        f.write(RT_HEAD.replace('#include <string.h>', '#include <string.h>\n#include "bigint.h"') + COMMON + BINT_UF + wr + gen_rt(bs, have_rt) + tail)
    # canary copies: same harnesses, SPEC overridden for the canary ops only
    saved = dict(SPEC)
    try:
        SPEC.update(CANARY)
        cbs = [b for b in bs if b["name"] in CANARY or b["name"] in CANARY_RT]
        for nm, ex in CANARY_RT.items():
            wr = re.sub(r"(static \w+ rt_%s\([^)]*\) \{ return )[^;]*;" % nm, lambda m: m.group(1) + ex + ";", wr)
        with open(os.path.join(outdir, "gen_fold_canary.c"), "w") as f:
            f.write(FOLD_HEAD + COMMON + wr + gen_fold(cbs, have_rt) + tail)
        with open(os.path.join(outdir, "gen_fint_canary.c"), "w") as f:
            f.write(FINT_HEAD + COMMON + wr + gen_fint(cbs, have_rt) + tail)
        with open(os.path.join(outdir, "gen_rt_canary.c"), "w") as f:
            f.write(RT_HEAD + COMMON + wr + gen_rt(cbs, have_rt) + tail)
    finally:
        SPEC.clear()
        SPEC.update(saved)
    return bs, have_rt, fb


if __name__ == "__main__":
    bs, have, fb = generate(sys.argv[1] if len(sys.argv) > 1 else "/var/tmp/c04gen")
    print(len(fb), "builtins in foamBValInfoTable;", len(bs), "in scope;", len(have), "with runtime expression")
    print("out of scope:", [b["name"] for b in fb if not in_scope(b)])
