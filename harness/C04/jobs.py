"""C04 jobs: every builtin means the same in the folder, the interpreter and the C runtime."""
import os, sys
sys.path.insert(0, os.path.dirname(os.path.abspath(__file__)))
import gen  # noqa: E402

ASSUMPTIONS = [
    "folder harness: operand nodes are real `union foam` objects built by the harness; result nodes are built by the REAL foamNew/foamNewAlloc (foam.c included textually, foamIsInit forced so that the symbol-table initialisation is skipped)",
    "interpreter harness: the definition of the 3-line wrapper fintEval() is renamed mechanically on every run (splice _rename_def) so that fintEvalBCall's operand evaluations bind to a harness model that yields the next operand of a ghost stream; everything else in fint.c is the real text; the op code is placed on the tape in the real decoder's byte order",
    "C runtime: the expression for each builtin is extracted mechanically from the real genc.c ccBValInfoTable and ccode.c operator table on every run; this drops gc0TryCast operand casts, the USE_MACROS statement form and statement sequencing (labelled 'extracted', not the code genc runs)",
    "machine long = FOAM SInt = 64 bit two's complement; signed overflow wraps (CBMC semantics; gcc on x86-64 in practice)",
    "isdigit/isalpha/tolower/toupper as CBMC models them for the C locale (the spec itself does not use ctype)",
    "UNDECIDED and not claimed: agreement of the three evaluators on float multiply/divide/fused and the rounding-mode float operations over their full domain (SAT and z3 both exceed 900 s); SIntGcd (Euclid's loop on symbolic words); all BInt builtins (delegated to C11); multi-value builtins (Divide, Dissemble, Word double-word ops), Format/Scan/ArrTo* literal conversions",
    "mathematical clause is claimed only on the stated domain PRE[op] (gen.py); outside it only agreement of evaluators is claimed; division by zero and shift counts >= 64 are excluded entirely",
]


# 64-bit multiply/divide/remainder: two copies of the same multiplier/divider circuit are out of reach of the SAT
# back end (600 s+), but are the SAME bit-vector term for an SMT solver; these jobs are discharged by z3.
SMT_OPS = {"SIntTimes", "SIntTimesPlus", "SIntMod", "SIntQuo", "SIntRem", "SIntPlusMod", "SIntMinusMod", "SIntTimesMod", "SIntHashCombine"}
LOOP_OPS = {"SIntLength": ["--unwind", "66", "--unwinding-assertions"]}
LINK = ["foam_c.c", "foam_i.c", "util.c:-Dbug=util_c_bug", "stdc.c:-D_do_assert=stdc_c_do_assert"]
NOBODY_OK = []
SKIP = {"SIntGcd"}
# float agreement over the FULL operand domain is not decided for these (SAT and z3 both > 900 s): multiplier /
# divider circuits.  They are checked on an operand class only (gen.VARIANTS) and listed as undecided otherwise.
FLOAT_UNDECIDED_FULL = {"SFloTimes", "SFloDivide", "SFloTimesPlus", "DFloTimes", "DFloDivide", "DFloTimesPlus",
                        "SFloRPlus", "SFloRMinus", "SFloRTimes", "SFloRDivide", "DFloRPlus", "DFloRMinus", "DFloRTimes", "DFloRDivide"}   # Euclid's loop on symbolic 64-bit operands: not decided here (interpreter calls the runtime's own fiSIntGcd)


def jobs(tier):
    gd = os.environ.get("VERIF_GEN_DIR") or "/var/tmp/c04gen"
    bs, have_rt, fb = gen.generate(gd)
    js = []
    quick_skip = set(gen.FLOAT_AGREE) if tier == "quick" else set()
    for b in bs:
        n = b["name"]
        if n in quick_skip or n in SKIP:
            continue
        if n in FLOAT_UNDECIDED_FULL:
            for vname, vcond in ([] if True else gen.VARIANTS.get(n, [])):   # tried: symex of fiDFloPrev/Next exhausts 8 GB; not scheduled
                js.append({"name": "interp.%s.class_%s" % (n, vname), "src": os.path.join(gd, "gen_fint.c"),
                           "entry": "h_fint_%s__%s" % (n, vname), "functions": ["fintEvalBCall"],
                           "splice": {"fint.c": {"_rename_def": {"fintEval": "fintEval__real"}}},
                           "assumed": ["harness fintEval (ghost operand stream) stands in for operand sub-expression evaluation"],
                           "native": True, "inputs": list("abcd"[:b["argc"]]), "cls": "B", "bound": "operand class " + vcond,
                           "checks": ["--no-standard-checks", "--no-malloc-may-fail"], "cbmc": ["--object-bits", "14"],
                           "timeout": 200, "link": LINK, "strict_nobody": True, "nobody_ok": NOBODY_OK})
            continue
        extra = (["--z3", "--slice-formula"] if n in SMT_OPS else []) + LOOP_OPS.get(n, [])
        fl = n in gen.FLOAT_AGREE
        js.append({"name": "fold." + n, "src": os.path.join(gd, "gen_fold.c"), "entry": "h_fold_" + n,
                   "functions": ["cfoldBCall"], "inputs": list("abcd"[:b["argc"]]), "native": True, "cls": "P",
                   "checks": ["--no-standard-checks", "--no-malloc-may-fail"],
                   "cbmc": ["--object-bits", "14"] + extra, "timeout": 900 if fl else 300, "link": LINK, "strict_nobody": True, "nobody_ok": NOBODY_OK})
        js.append({"name": "interp." + n, "src": os.path.join(gd, "gen_fint.c"), "entry": "h_fint_" + n,
                   "functions": ["fintEvalBCall"], "splice": {"fint.c": {"_rename_def": {"fintEval": "fintEval__real"}}},
                   "assumed": ["harness fintEval (ghost operand stream) stands in for operand sub-expression evaluation"], "native": True,
                   "inputs": list("abcd"[:b["argc"]]), "cls": "P", "cbmc": ["--object-bits", "14"] + extra,
                   "checks": ["--no-standard-checks", "--no-malloc-may-fail"],
                   "timeout": 900 if fl else 400, "link": LINK, "strict_nobody": True, "nobody_ok": NOBODY_OK})
        if n in have_rt and n in gen.SPEC:
            js.append({"name": "runtime." + n, "src": os.path.join(gd, "gen_rt.c"), "entry": "h_rt_" + n,
                       "functions": ["genc:ccBValInfoTable[%s] (extracted)" % n], "inputs": list("abcd"[:b["argc"]]),
                       "native": True, "cls": "P", "timeout": 300, "link": LINK, "strict_nobody": True, "nobody_ok": NOBODY_OK,
                       "cbmc": extra})
    # ---- algebraic simplification: the real of_peep.c:peepBCall preserves value ----
    PL = ["bigint.c", "of_util.c", "util.c:-Dbug=util_c_bug", "stdc.c:-D_do_assert=stdc_c_do_assert"]
    PCONST = ["2L", "4L", "1024L", "(1L<<30)", "(1L<<31)", "(1L<<62)", "3L", "(-1L)", "(-2L)", "(-0x7fffffffffffffffL-1)"]
    PFN = ["peepBCall", "peepBinaryBCall", "peepAdditiveOp", "peepTimesOp", "peepMakeUnaryOp", "peepMakeBinaryOp", "peepPositive", "peepFoamIsValue", "peepFoamIsPowerOf2"]

    def P(name, entry, defs, fns, smt=False):
        js.append({"name": name, "src": "peep_h.c", "entry": entry, "defs": defs, "functions": fns,
                   "inputs": ["x", "y", "c", "shape", "slow"], "native": True, "cls": "P",
                   "checks": ["--no-standard-checks", "--no-malloc-may-fail"],
                   "cbmc": ["--object-bits", "14", "--unwind", "70"] + (["--z3", "--slice-formula"] if smt else []),
                   "timeout": 300 if tier != "thorough" else 3000, "link": PL,
                   "assumed": ["leaves are side-effect-free local variables holding arbitrary words", "allocator stub",
                               "operand shapes enumerated: x op 0/1, 0/1 op x, x op x, x op y, (-x) op y, x op (-y), x op c and c op x for c in a fixed list of constants"]})
    for op in ("SIntPlus", "SIntMinus", "SIntTimes", "SIntEQ", "SIntNE", "SIntLT", "SIntLE"):
        for slow in ((1, 0) if op in ("SIntMinus", "SIntLT", "SIntLE") else (1,)):
            tn = "slowtbl" if slow else "fasttbl"
            for shape in range(8):
                P("peep.%s.%s.shape%d" % (op, tn, shape), "h_peep_binary",
                  ["-DPEEP_OP=FOAM_BVal_" + op, "-DPEEP_SHAPE=%d" % shape, "-DPEEP_SLOW=%d" % slow], PFN)
            if tier == "thorough" or slow:
                for shape in (8, 9):
                    for ci, cv in enumerate(PCONST):
                        P("peep.%s.%s.shape%d.c%d" % (op, tn, shape, ci), "h_peep_binary",
                          ["-DPEEP_OP=FOAM_BVal_" + op, "-DPEEP_SHAPE=%d" % shape, "-DPEEP_SLOW=%d" % slow, "-DPEEP_C=" + cv], PFN)
    for op, shape in (("SIntMinus", 2), ("SIntLT", 1)):
        P("canary.peep.%s.shape%d" % (op, shape), "h_peep_binary",
          ["-DPEEP_OP=FOAM_BVal_" + op, "-DPEEP_SHAPE=%d" % shape, "-DPEEP_SLOW=1", "-DCANARY_peep"], PFN)
        js[-1]["kind"] = "canary"
    for shape in range(12):
        P("peep.unary_boolean.shape%d" % shape, "h_peep_unary", ["-DPEEP_SHAPE=%d" % shape, "-DPEEP_SLOW=1"],
          ["peepBCall", "peepNegate", "peepUnaryBCall", "peepMakeBinaryOp"])
    SPLICE = {"fint.c": {"_rename_def": {"fintEval": "fintEval__real"}}}
    NOCHK = ["--no-standard-checks", "--no-malloc-may-fail"]
    for n in list(gen.CANARY) + list(gen.CANARY_RT):
        b = [x for x in bs if x["name"] == n][0]
        ins = list("abcd"[:b["argc"]])
        common = {"kind": "canary", "inputs": ins, "cls": "P", "timeout": 300, "link": LINK}
        if n != "SIntBit":   # the folder leaves SIntBit alone ("fill in later"), so there is nothing to refute there
            js.append(dict(common, name="canary.fold." + n, src=os.path.join(gd, "gen_fold_canary.c"), entry="h_fold_" + n,
                           functions=["cfoldBCall"], checks=NOCHK, cbmc=["--object-bits", "14"]))
        js.append(dict(common, name="canary.interp." + n, src=os.path.join(gd, "gen_fint_canary.c"), entry="h_fint_" + n,
                       functions=["fintEvalBCall"], splice=SPLICE, checks=NOCHK, cbmc=["--object-bits", "14"]))
        if n in gen.CANARY:
            js.append(dict(common, name="canary.runtime." + n, src=os.path.join(gd, "gen_rt_canary.c"), entry="h_rt_" + n,
                           functions=[]))
    return js
