/* C04: algebraic simplification (of_peep.c:peepBCall, real text) preserves the value of machine-integer and boolean
 * builtin calls.  A call tree over two side-effect-free leaves x = (Loc 0), y = (Loc 1) and constants is rewritten by
 * the REAL peepBCall; original and rewritten tree are evaluated by one small evaluator whose per-builtin semantics
 * is the mathematical spec of gen.py (two's complement wrap).  Leaves are arbitrary 64-bit values. */
#include "foam.c"
#include "of_peep.c"
#include "vharness.h"
#define V_STUB_BUG_UNREACHABLE
#define V_STUB_STO
#include "stubs.h"
#include <string.h>

#define U(v) ((unsigned long)(v))
#define W(v) ((long)(unsigned long)(v))

static Foam h_node(unsigned long size) { Foam f = (Foam) malloc(size); ASSUME(f != 0); return f; }
static Foam h_loc(int ix)
{	struct foamLoc s; Foam n = h_node(sizeof s); memset(&s, 0, sizeof s); s.hdr.tag = FOAM_Loc; s.hdr.argc = 1; s.index = ix; n->foamLoc = s; return n; }
static Foam h_sint(long v)
{	struct foamSInt s; Foam n = h_node(sizeof s); memset(&s, 0, sizeof s); s.hdr.tag = FOAM_SInt; s.hdr.argc = 1; s.SIntData = v; n->foamSInt = s; return n; }
static Foam h_bool(long v)
{	struct foamBool s; Foam n = h_node(sizeof s); memset(&s, 0, sizeof s); s.hdr.tag = FOAM_Bool; s.hdr.argc = 1; s.BoolData = v; n->foamBool = s; return n; }
static Foam h_b1(int op, Foam a)
{	struct foamBCall s; Foam n = h_node(sizeof s); memset(&s, 0, sizeof s); s.hdr.tag = FOAM_BCall; s.hdr.argc = 2; s.op = op; s.argv[0] = a; n->foamBCall = s; return n; }
static Foam h_b2(int op, Foam a, Foam b)
{	struct foamBCall s; Foam n = h_node(sizeof s); memset(&s, 0, sizeof s); s.hdr.tag = FOAM_BCall; s.hdr.argc = 3; s.op = op; s.argv[0] = a; s.argv[1] = b; n->foamBCall = s; return n; }

static int g_eval_ok;	/* cleared if the rewritten tree contains something the evaluator has no meaning for */

#define h_eval(f, x, y) h_eval_d(f, x, y, 0)
static long h_eval_d(Foam f, long x, long y, int depth)
{
	long a = 0, b = 0;
	/* explicit depth bound: nodes built by foamNew are not constants for symbolic execution, so an unbounded
	 * recursion would be unwound to the global limit on every path; the rules never build deeper trees */
	if (depth > 3) { g_eval_ok = 0; return 0; }
	switch (foamTag(f)) {
	case FOAM_SInt: return f->foamSInt.SIntData;
	case FOAM_Bool: return f->foamBool.BoolData != 0;
	case FOAM_Loc:  return f->foamLoc.index == 0 ? x : y;
	case FOAM_BCall:
		if (foamArgc(f) >= 2) a = h_eval_d(f->foamBCall.argv[0], x, y, depth + 1);
		if (foamArgc(f) >= 3) b = h_eval_d(f->foamBCall.argv[1], x, y, depth + 1);
		/* of_peep.c builds calls with foamNew(FOAM_BCall, n, op, ...): the op tag goes through the variable
		 * argument list as an int and is read back with va_arg(.., Foam), so only its low 32 bits are defined
		 * (an undefined-behaviour read that is harmless on x86-64 and outside this property) */
		switch ((int) f->foamBCall.op) {
		case FOAM_BVal_SIntPlus:   return W(U(a) + U(b));
		case FOAM_BVal_SIntMinus:  return W(U(a) - U(b));
		case FOAM_BVal_SIntTimes:  return a * b;
		case FOAM_BVal_SIntNegate: return W(0UL - U(a));
		case FOAM_BVal_SIntNext:   return W(U(a) + 1UL);
#ifndef CANARY_peep
		case FOAM_BVal_SIntPrev:   return W(U(a) - 1UL);
#else		/* canary: the evaluator gives SIntPrev the meaning of SIntNext, so "x - 1 => Prev(x)" must be refuted */
		case FOAM_BVal_SIntPrev:   return W(U(a) + 1UL);
#endif
		case FOAM_BVal_SIntShiftUp: if (b < 0 || b > 63) { g_eval_ok = 0; return 0; } return W(U(a) << b);
		case FOAM_BVal_SIntIsZero: return a == 0;
		case FOAM_BVal_SIntIsNeg:  return a < 0;
#ifndef CANARY_peep
		case FOAM_BVal_SIntIsPos:  return a > 0;
#else		/* canary: "0 < x => IsPos(x)" must be refuted if IsPos meant >= 0 */
		case FOAM_BVal_SIntIsPos:  return a >= 0;
#endif
		case FOAM_BVal_SIntEQ:     return a == b;
		case FOAM_BVal_SIntNE:     return a != b;
		case FOAM_BVal_SIntLT:     return a < b;
		case FOAM_BVal_SIntLE:     return a <= b;
		case FOAM_BVal_BoolNot:    return a == 0;
		case FOAM_BVal_BoolAnd:    return a != 0 && b != 0;
		case FOAM_BVal_BoolOr:     return a != 0 || b != 0;
		case FOAM_BVal_BoolEQ:     return (a != 0) == (b != 0);
		case FOAM_BVal_BoolNE:     return (a != 0) != (b != 0);
		default: g_eval_ok = 0; return 0;
		}
	default: g_eval_ok = 0; return 0;
	}
}

#ifndef PEEP_OP
#define PEEP_OP FOAM_BVal_SIntPlus
#endif

/* binary machine-integer builtin PEEP_OP over the operand shapes the rules look at */
void h_peep_binary(void)
{
	INPUT(long, x); INPUT(long, y); INPUT(long, c); INPUT(int, shape); INPUT(int, slow);
	Foam l, r, t, res; long before, after;
	foamIsInit = 1;
#ifdef PEEP_SHAPE	/* one operand shape and one table per job: symbolic execution then sees a concrete tree */
	shape = PEEP_SHAPE; slow = PEEP_SLOW;
#endif
#ifdef PEEP_C		/* the constant operand of shapes 8 and 9 (a symbolic constant makes intLength's loop symbolic: 300 s+) */
	c = PEEP_C;
#endif
	peepBValTbl = slow ? &foamBValOpInfoTableSlow[0] : &foamBValOpInfoTableFast[0];
	ASSUME(shape >= 0 && shape <= 9);
	switch (shape) {
	case 0: l = h_loc(0);  r = h_sint(0); break;			/* x op 0 */
	case 1: l = h_sint(0); r = h_loc(0);  break;			/* 0 op x */
	case 2: l = h_loc(0);  r = h_sint(1); break;			/* x op 1 */
	case 3: l = h_sint(1); r = h_loc(0);  break;			/* 1 op x */
	case 4: l = h_loc(0);  r = h_loc(0);  break;			/* x op x */
	case 5: l = h_loc(0);  r = h_loc(1);  break;			/* x op y */
	case 6: l = h_b1(FOAM_BVal_SIntNegate, h_loc(0)); r = h_loc(1); break;	/* (-x) op y */
	case 7: l = h_loc(0);  r = h_b1(FOAM_BVal_SIntNegate, h_loc(1)); break;	/* x op (-y) */
	case 8: l = h_loc(0);  r = h_sint(c); break;			/* x op c   (powers of two, negative constants, ...) */
	default: l = h_sint(c); r = h_loc(0); break;			/* c op x */
	}
	t = h_b2(PEEP_OP, l, r);
	g_eval_ok = 1;
	before = h_eval(t, x, y);
	res = peepBCall(t);
	if (res == t) {
		/* left alone: the very same node must come back untouched (a second evaluation of an unchanged x*y would
		 * only give the solver two copies of one multiplier to compare) */
		CHECK("peephole: a call that is not rewritten is returned unmodified",
		      t->foamBCall.op == PEEP_OP && t->foamBCall.argv[0] == l && t->foamBCall.argv[1] == r && foamArgc(t) == 3);
		after = before;
	} else
		after = h_eval(res, x, y);
	CHECK("peephole: rewritten tree only uses builtins with a known meaning", g_eval_ok);
	CHECK("peephole: rewritten call has the value of the original for every value of the leaves", after == before);
	__CPROVER_assert(res == t, "VCOVER peephole rewrites some shape of this builtin");
	VREACH();
}

/* BoolNot over comparisons and over itself; unary inverses */
void h_peep_unary(void)
{
	INPUT(long, x); INPUT(long, y); INPUT(int, shape); INPUT(int, slow);
	Foam t, res; long before, after;
	foamIsInit = 1;
#ifdef PEEP_SHAPE
	shape = PEEP_SHAPE; slow = PEEP_SLOW;
#endif
	peepBValTbl = slow ? &foamBValOpInfoTableSlow[0] : &foamBValOpInfoTableFast[0];
	ASSUME(shape >= 0 && shape <= 11);
	switch (shape) {
	case 0: t = h_b1(FOAM_BVal_BoolNot, h_b2(FOAM_BVal_SIntEQ, h_loc(0), h_loc(1))); break;
	case 1: t = h_b1(FOAM_BVal_BoolNot, h_b2(FOAM_BVal_SIntNE, h_loc(0), h_loc(1))); break;
	case 2: t = h_b1(FOAM_BVal_BoolNot, h_b2(FOAM_BVal_SIntLT, h_loc(0), h_loc(1))); break;
	case 3: t = h_b1(FOAM_BVal_BoolNot, h_b2(FOAM_BVal_SIntLE, h_loc(0), h_loc(1))); break;
	case 4: t = h_b1(FOAM_BVal_BoolNot, h_b1(FOAM_BVal_BoolNot, h_loc(0))); break;
	case 5: t = h_b1(FOAM_BVal_SIntNegate, h_b1(FOAM_BVal_SIntNegate, h_loc(0))); break;
	case 6: t = h_b1(FOAM_BVal_SIntNext, h_b1(FOAM_BVal_SIntPrev, h_loc(0))); break;
	case 7: t = h_b1(FOAM_BVal_SIntPrev, h_b1(FOAM_BVal_SIntNext, h_loc(0))); break;
	case 8: t = h_b2(FOAM_BVal_BoolAnd, h_bool(1), h_loc(0)); break;
	case 9: t = h_b2(FOAM_BVal_BoolAnd, h_loc(0), h_bool(0)); break;
	case 10: t = h_b2(FOAM_BVal_BoolOr, h_bool(0), h_loc(0)); break;
	default: t = h_b2(FOAM_BVal_BoolOr, h_loc(0), h_bool(1)); break;
	}
	/* boolean leaves hold 0 or 1 */
	if (shape == 4 || shape >= 8) ASSUME(x == 0 || x == 1);
	g_eval_ok = 1;
	before = h_eval(t, x, y);
	res = peepBCall(t);
	after = h_eval(res, x, y);
	CHECK("peephole: rewritten tree only uses builtins with a known meaning", g_eval_ok);
	CHECK("peephole: rewritten call has the value of the original for every value of the leaves", after == before);
	VREACH();
}

#ifdef NATIVE_REPLAY
V_NATIVE_MAIN(ENTRY)
#endif
