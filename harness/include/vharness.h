/*
 * vharness.h -- shared harness vocabulary.
 *
 * One harness source is compiled two ways:
 *   (a) by goto-cc with -DALDOR_VERIF  : inputs are nondeterministic, CHECK() is a
 *       proof obligation, contracts (separate declarations named c_<fn>) are bound
 *       to the real functions by goto-instrument --dfcc.
 *   (b) by gcc with -DNATIVE_REPLAY    : inputs come from CEX_<name> macros written
 *       by tools/cex.py from the verifier's counterexample; CHECK() prints
 *       REPLAY-FAIL <name> and the program exits 1 if any check failed.
 * The real repository translation unit is #included by the harness in both modes.
 */
#ifndef VHARNESS_H
#define VHARNESS_H

#ifdef NATIVE_REPLAY
# include <stdio.h>
# include <stdlib.h>
# include <string.h>
static int v_replay_failed;
static int v_replay_pre_violated;
/* cex.h (generated) defines V_CEX_TABLE as a list of {"name", value} pairs */
static const struct { const char *n; unsigned long v; } v_cex_tab[] = { V_CEX_TABLE {0, 0} };
static unsigned long v_cex(const char *name, long idx)
{
	char key[128]; int i;
	if (idx < 0) snprintf(key, sizeof key, "%s", name); else snprintf(key, sizeof key, "%s[%ld]", name, idx);
	for (i = 0; v_cex_tab[i].n; i++) if (!strcmp(v_cex_tab[i].n, key)) return v_cex_tab[i].v;
	return 0; /* not constrained by the counterexample */
}
# define INPUT(T, x)            T x = (T) v_cex(#x, -1)
# define INPUT_ARR(T, x, n)     T x[n]; do { long v_i; for (v_i = 0; v_i < (long)(n); v_i++) x[v_i] = (T) v_cex(#x, v_i); } while (0)
# define ASSUME(c)              do { if (!(c)) { v_replay_pre_violated = 1; printf("REPLAY-PRE-NOT-MET %s\n", #c); } } while (0)
# define CHECK(name, c)         do { if (!(c)) { v_replay_failed = 1; printf("REPLAY-FAIL %s\n", name); } else printf("REPLAY-OK %s\n", name); } while (0)
/* contract clauses are checked by goto-instrument in mode (a); in mode (b) the
 * harness evaluates the same PRE_/POST_ macro texts itself. */
# define CONTRACT_PRE(c)        ASSUME(c)
# define CONTRACT_POST(name, c) CHECK(name, c)
# define VREACH()               do { printf("REPLAY-REACHED-END\n"); } while (0)
# define V_NATIVE_MAIN(h)       int main(void) { h(); if (v_replay_pre_violated) return 3; return v_replay_failed ? 1 : 0; }
# define __CPROVER_assume(c)    ASSUME(c)
# define __CPROVER_assert(c, m) ((void)0)
# define __CPROVER_requires(...)
# define __CPROVER_ensures(...)
# define __CPROVER_assigns(...)
# define __CPROVER_frees(...)
# define __CPROVER_loop_invariant(...)
# define __CPROVER_decreases(...)
#else
# define INPUT(T, x)            T x
# define INPUT_ARR(T, x, n)     T x[n]
# define ASSUME(c)              __CPROVER_assume(c)
# define CHECK(name, c)         __CPROVER_assert((c), "CHECK " name)
# define CONTRACT_PRE(c)        ((void)0)
# define CONTRACT_POST(name, c) ((void)0)
/* reachability twin: this assertion MUST fail, else everything before it is vacuous */
# ifdef V_NO_VREACH      /* canary jobs run with --stop-on-fail: the first failure must be a real obligation, not this twin */
#  define VREACH()              ((void) 0)
# else
#  define VREACH()              __CPROVER_assert(0, "VREACH end of harness reachable")
# endif
# define V_NATIVE_MAIN(h)
#endif

#endif
