/*
 * stubs.h -- harness bodies for the handful of repository functions that every
 * unit calls but that are not part of the unit under contract.  Each is an
 * ASSUMPTION and is reported as such in the evidence file (tools/vlib.py scans
 * this file's V_STUB_* uses per harness).
 *
 * Select with #define V_STUB_<name> before including.
 */
#ifndef VSTUBS_H
#define VSTUBS_H
#include <stdarg.h>
#include <stdlib.h>

/* ghost: set when the code under contract reports an internal failure */
int g_diag;

#ifdef V_STUB_BUG_UNREACHABLE
/* contract: bug()/assertion failure must not be reachable from the harness */
#ifndef V_STUB_KEEP_REAL_BUG   /* (when util.c is linked, its own bug() is used: it aborts) */
void bug(String fmt, ...)
{
#ifdef NATIVE_REPLAY
	printf("REPLAY-FAIL bug() reached: %s\n", fmt); exit(1);
#else
	__CPROVER_assert(0, "CHECK internal bug() path reached");
	__CPROVER_assume(0);
#endif
}
#endif
void _do_assert(char *str, char *file, int line)
{
#ifdef NATIVE_REPLAY
	printf("REPLAY-FAIL assert reached: %s\n", str ? str : "?"); exit(1);
#else
	__CPROVER_assert(0, "CHECK internal assert() failure reached");
	__CPROVER_assume(0);
#endif
}
#endif

#ifdef V_STUB_BUG_DIAG
/* contract: bug()/assert is an allowed, visible refusal: sets g_diag and does not return */
void bug(String fmt, ...)
{
	g_diag = 1;
#ifdef NATIVE_REPLAY
	printf("REPLAY-DIAG bug(): %s\n", fmt); exit(v_replay_failed ? 1 : 0);
#else
	__CPROVER_assume(0);
#endif
}
/* assert(): the compiler switches assertions OFF unless -Wcheck is given (cmdline.c: _dont_assert = true), so a failed
 * assertion is NOT a refusal the property can rely on: the model may end the path (assertions on) or simply return
 * (assertions off, the default) -- obligations must hold either way */
int nondet_v_assertions_on(void);
void _do_assert(char *str, char *file, int line)
{
#ifdef NATIVE_REPLAY
	printf("REPLAY-NOTE an assertion would fail here (assertions are off by default): %s\n", str ? str : "?");
#else
	if (nondet_v_assertions_on()) { g_diag = 1; __CPROVER_assume(0); }
#endif
}
#endif

#if defined(V_STUB_CTYPE_C_LOCALE) && !defined(NATIVE_REPLAY)
/* <ctype.h> in the "C" locale, by range arithmetic.  CBMC 6.11's built-in models are imprecise outside the
 * letters (its tolower(16) is 32), which produced a false alarm; the native replay uses the real libc. */
/* classification functions return SOME non-zero value for "true" (C99 7.4.1: "nonzero"; glibc returns the class bit,
 * e.g. 2048 for isdigit) -- code that stores the raw result as a boolean 0/1 is wrong and must be seen to be */
int nondet_v_ctype(void);
static int v_ctype_true(void) { int v = nondet_v_ctype(); __CPROVER_assume(v != 0); return v; }
int (isdigit)(int c) { return (c >= '0' && c <= '9') ? v_ctype_true() : 0; }
int (isalpha)(int c) { return ((c >= 'A' && c <= 'Z') || (c >= 'a' && c <= 'z')) ? v_ctype_true() : 0; }
int (isupper)(int c) { return (c >= 'A' && c <= 'Z') ? v_ctype_true() : 0; }
int (islower)(int c) { return (c >= 'a' && c <= 'z') ? v_ctype_true() : 0; }
int (isalnum)(int c) { return ((c >= '0' && c <= '9') || (c >= 'A' && c <= 'Z') || (c >= 'a' && c <= 'z')) ? v_ctype_true() : 0; }
int (isspace)(int c) { return (c == ' ' || (c >= 9 && c <= 13)) ? v_ctype_true() : 0; }
int (tolower)(int c) { return (c >= 'A' && c <= 'Z') ? c + ('a' - 'A') : c; }
int (toupper)(int c) { return (c >= 'a' && c <= 'z') ? c - ('a' - 'A') : c; }
#endif

#if defined(V_STUB_MEMCHR) && !defined(NATIVE_REPLAY)
/* CBMC 6.11 has no model of memchr */
void *(memchr)(const void *s, int c, size_t n)
{
	const unsigned char *p = (const unsigned char *) s; size_t i;
	for (i = 0; i < n; i++) if (p[i] == (unsigned char) c) return (void *) (p + i);
	return (void *) 0;
}
#endif

#ifdef V_STUB_STO
/* allocator stub: fresh, non-NULL, suitably sized memory (that IS property C10's
 * claim; assumed here).  stoFree is a no-op so that use-after-free inside the
 * unit under contract is still caught by --pointer-check on malloc'd objects
 * only when the unit itself calls free(). */
MostAlignedType *stoAlloc(unsigned code, ULong size)
{
#ifdef V_STO_MIN_SIZE
	/* struct-hack nodes: hand out at least a whole union so that CBMC's whole-object dereference check of
	 * `*node` has no false alarm; at-least-as-large is what the allocator promises anyway (C10) */
	if (size < (V_STO_MIN_SIZE)) size = (V_STO_MIN_SIZE);
#endif
	void *p = malloc(size ? size : 1);
#ifndef NATIVE_REPLAY
	__CPROVER_assume(p != 0);
#endif
	return (MostAlignedType *) p;
}
void stoFree(Pointer p) { (void) p; }
#ifdef NATIVE_REPLAY
# include <malloc.h>
ULong stoSize(Pointer p) { return (ULong) malloc_usable_size(p); }
#else
ULong stoSize(Pointer p) { return (ULong) __CPROVER_OBJECT_SIZE(p); }	/* the block is exactly as large as requested */
#endif
MostAlignedType *stoResize(Pointer p, ULong size)
{
	/* contents preserved up to min(old,new); modelled with realloc */
	void *q = realloc(p, size ? size : 1);
#ifndef NATIVE_REPLAY
	__CPROVER_assume(q != 0);
#endif
	return (MostAlignedType *) q;
}
#endif

#endif
