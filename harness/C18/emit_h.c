/*
 * C18 harnesses for the output writers of emit.c.  The real emit.c (and the real ostream.c and
 * list.c it writes Java / walks lists through) are included verbatim; stdio is replaced by the
 * failing-I/O model of iomodel.h; the functions that PRODUCE the text (inclWrite, abWrSExpr,
 * symeListWrSExpr, sxiWrite, foamWrSExpr, ccoPrint, jcoWrite, ostreamPrintf, libPut*) are
 * harness bodies that do nothing but one may-fail write on the stream they were given.
 */
/* goto-instrument --dfcc cannot thread its write set through variadic functions (a variadic harness body
 * that sets a ghost fails its own frame check), so calls of fprintf in the included units are routed to
 * the non-variadic model v_fprintf(stream) of iomodel.h.  Only the callee name changes; the format
 * arguments are irrelevant to the failing-I/O model. */
#include <stdio.h>
#include "axlgen.h"
#include "comsg.h"
#include "format.h"
#include "util.h"
extern void v_bug(void);
#define bug(...)              v_bug()
extern int  v_fprintf(FILE *f);
extern int  v_ostreamPrintf(OStream o);
extern void v_comsgFatal(void);
extern void v_comsgError(void);
extern int  v_sprintf_prec_d(char *buf, int prec, int val);
#define fprintf(f, ...)       v_fprintf(f)
#define sprintf(buf, fmt, prec, val) v_sprintf_prec_d(buf, prec, val)	/* the one use: "%.*d" at emit.c l.1088 */
#define ostreamPrintf(o, ...) v_ostreamPrintf(o)
#define comsgFatal(...)       v_comsgFatal()
#define comsgError(...)       v_comsgError()
#include "emit.c"
#include "ostream.c"
#undef bug
#undef fprintf
#undef sprintf
#undef ostreamPrintf
#undef comsgFatal
#undef comsgError

#include "vharness.h"
#define V_STUB_STO
#include "stubs.h"
#include "iomodel.h"
#include "c_emit.h"

/* ---- environment: list operations emitTheC uses (list.c's generic table dispatches every call
 *      through one shared table of ~60 function pointers, which the verifier cannot resolve; these
 *      are the three operations the writer needs, with the same meaning) -------------------------- */
static Length
h_ccode_length(CCodeList l)
{
	Length n = 0;
	for (; l; l = l->rest) n++;
	return n;
}
static FileNameList
h_fname_cons(FileName fn, FileNameList l)
{
	FileNameList c = (FileNameList) malloc(sizeof(*c));
	__CPROVER_assume(c != 0);
	c->first = fn; c->rest = l;
	return c;
}
static FileNameList
h_fname_nreverse(FileNameList l)
{
	FileNameList r = 0, t;
	while (l) { t = l->rest; l->rest = r; r = l; l = t; }
	return r;
}
static const struct CCode_listOpsStruct    h_ccode_ops = { ._Length = h_ccode_length };
static const struct FileName_listOpsStruct h_fname_ops = { .Cons = h_fname_cons, .NReverse = h_fname_nreverse };
struct CCode_listOpsStruct const    *CCode_listPointer;
struct FileName_listOpsStruct const *FileName_listPointer;

/* goto-instrument --dfcc makes every non-const global arbitrary at harness start (C initialisers are
 * lost): each harness re-establishes the dispatch tables the writer runs through.  Everything else in
 * emit.c's static state (emitDoLineNos, emitKeep[], emitOutputDir, the header format strings ...) is
 * left ARBITRARY on purpose: the obligations must hold for every setting of the options. */
static void
h_init_tables(void)
{
	CCode_listPointer    = &h_ccode_ops;
	FileName_listPointer = &h_fname_ops;
	ostreamFileOps.writeCharFn   = ostreamFileWriteChar;	/* = the initialiser in ostream.c */
	ostreamFileOps.writeStringFn = ostreamFileWriteString;
	ostreamFileOps.closeFn       = ostreamFileClose;
}

/* ---- environment: strings and file names (no stream I/O) -------------------------------------- */
static const char h_str[8] = "a.b/c";	/* these strings are only passed on to other environment functions */
static String h_some_string(void) { return (String) h_str; }
String strCopy(CString s)                 { return h_some_string(); }
String strConcat(String a, String b)      { return h_some_string(); }
String strPrintf(const char *fmt, ...)    { return h_some_string(); }
String strReplace(String a, String b, String c) { return nondet_v_bool() ? (String) 0 : h_some_string(); }
Bool   strEqual(String a, String b)       { return nondet_v_bool(); }
String ftypeString(FTypeNo ft)            { return h_some_string(); }
Bool   ftypeIs(String s, FTypeNo ft)      { return nondet_v_bool(); }
FileName fnameNew(String d, String n, String t)
{
	FileName fn = (FileName) malloc(sizeof(struct fileName));
	__CPROVER_assume(fn != 0);
	fn->partv[FNAME_DIR] = d; fn->partv[FNAME_NAME] = n; fn->partv[FNAME_TYPE] = t;
	return fn;
}
void   fnameFree(FileName fn)                  { }
String fnameUnparseStatic(FileName fn)         { return h_some_string(); }
String fnameUnparseStaticWithout(FileName fn)  { return h_some_string(); }
void   fileRemove(FileName fn)                 { }
Bool   ccDoStandardC(void)                     { return nondet_v_bool(); }
Bool   ccLineNos(void)                         { return nondet_v_bool(); }
String jcFileClassName(JavaCode jc)            { return h_some_string(); }
String jcFilePackageName(JavaCode jc)          { return h_some_string(); }
StringList libDependencies(FileName fn)        { return (StringList) 0; }

/* ---- reporting: ghost g_reported ----------------------------------------- */
void v_comsgFatal(void)                   { g_reported = 1; __CPROVER_assume(0); }
void v_comsgError(void)                   { g_reported = 1; }
void v_bug(void)                          { g_diag = 1; __CPROVER_assume(0); }	/* visible abort, does not return */
int nondet_v_assertions_on(void);
void _do_assert(char *str, char *file, int line) { if (nondet_v_assertions_on()) { g_diag = 1; __CPROVER_assume(0); } }	/* assertions are off unless -Wcheck: the path may go on */
void comsgWarning(AbSyn ab, Msg fmt, ...) { /* a warning does not change the exit status */ }
void exitFailure(void)                    { g_reported = 1; __CPROVER_assume(0); }

/* sprintf(buf, "%.*d", prec, val): at least prec digits, at most 10 digits and a sign, and a NUL --
 * every byte is written through buf, so --pointer-check/--bounds-check see the real extent */
int v_sprintf_prec_d(char *buf, int prec, int val)
{
	int n = nondet_v_int(), i;
	__CPROVER_assume(n >= 1 && n >= prec && n <= (prec > 11 ? prec : 11));
	for (i = 0; i < n; i++) buf[i] = '0';
	buf[n] = 0;
	return n;
}

/* ---- opening: the contract of file.c:fileMustOpen (enforced in file_h.c) -- */
FILE *fileMustOpen(FileName fn, IOMode mode) { return v_open(); }


/* ---- closing: the contract of file.c:fileClose (enforced on the real text in file_h.c, job file.fileClose.*):
 *      close once; a pending stream error or a failing close goes to the error handler (reported, no return) */
void fileClose(FILE *f, FileName fn)
{
	int bad = ferror(f) != 0;
	if (fclose(f) != 0) bad = 1;
	if (bad) { g_reported = 1; __CPROVER_assume(0); }
}

/* ---- text producers: one may-fail write on the given stream, nothing else - */
int inclWrite(FILE *f, SrcLineList sll)                         { v_write(f); return nondet_v_int(); }
int abWrSExpr(FILE *f, AbSyn ab, ULong mode)                    { v_write(f); return nondet_v_int(); }
int symeListWrSExpr(FILE *f, String s, SymeList sl, ULong mode) { v_write(f); return nondet_v_int(); }
int sxiWrite(FILE *f, SExpr sx, ULong mode)                     { v_write(f); return nondet_v_int(); }
int foamWrSExpr(FILE *f, Foam foam, ULong mode)                 { v_write(f); return nondet_v_int(); }
int ccoPrint(FILE *f, CCode cco, CCodeMode mode)                { v_write(f); return nondet_v_int(); }
ULong glWriteMode;

/* Java goes through an OStream (real ostream.c: fputs/fwrite/fputc on the FILE) */
int v_ostreamPrintf(OStream o)                                  { return ostreamWrite(o, "", -1); }
JavaCodePContext jcoPContextNew(OStream o, Bool closeStream)    { g_jco_stream = o; return (JavaCodePContext) 0; }
void jcoPContextFree(JavaCodePContext ctxt)                     { }
void jcoWrite(JavaCodePContext ctxt, JavaCode code)             { ostreamWrite((OStream) g_jco_stream, "x", 1); ostreamWriteChar((OStream) g_jco_stream, '\n'); }

/* the .ao writer: lib.c section writers (fwrite + fflush on lib->file, results ignored there) */
Lib  libWrite(FileName fn)	/* = libNew(fn, false, fileWubOpen(fn), 0) as far as libClose's precondition goes */
{
	Lib lib = (Lib) malloc(sizeof(*lib));
	__CPROVER_assume(lib != 0);
	lib->rdOnly = 0; lib->isOutput = 1; lib->unitb = 0;	/* as the real libWrite leaves it: job lib.libWrite.marks_output */
	lib->file = g_lib_file = fileWubOpen(fn);
	return lib;
}
SymeList libPutSymes(Lib lib, SymeList sl, Foam foam) { v_write(g_lib_file); return sl; }
void libPutFoamSymes(Lib lib, Foam foam)         { v_write(g_lib_file); }
void libPutMacros(Lib lib, AbSyn macs)           { v_write(g_lib_file); }
Foam libPutFoam(Lib lib, Foam foam)              { v_write(g_lib_file); return foam; }
void libPutFileId(Lib lib, String id)            { v_write(g_lib_file); }
void libPutPos(Lib lib, Foam foam)               { v_write(g_lib_file); }

/* ---- harnesses ----------------------------------------------------------- */
/* the EmitInfo is made by the contract's requires clause (PRE_emit_writer: a fresh struct emitInfo whose
 * source file name has three readable parts, everything else arbitrary) */
EmitInfo nondet_finfo(void);
#define h_finfo() (h_init_tables(), nondet_finfo())

#define H_SIMPLE(fn, T1)						\
void h_##fn(void)							\
{									\
	EmitInfo fi = h_finfo();					\
	T1 a;								\
	INPUT(Bool, lineNos);						\
	emitDoLineNos = lineNos;					\
	fn(fi, a);							\
	VREACH();							\
}

H_SIMPLE(emitTheIncluded, SrcLineList)
H_SIMPLE(emitTheAbSyn, AbSyn)
H_SIMPLE(emitTheOldAbSyn, AbSyn)
H_SIMPLE(emitTheAnnotatedAbSyn, SExpr)
H_SIMPLE(emitTheFoamExpr, Foam)

void h_emitTheSymbolExpr(void)
{
	EmitInfo fi = h_finfo();
	SymeList sl; AbSyn macs;
	emitTheSymbolExpr(fi, sl, macs);
	VREACH();
}

void h_emitTheIntermed(void)
{
	EmitInfo fi = h_finfo();
	SymeList sl; Foam foam; AbSyn macs;
	INPUT(Bool, lineNos);
	INPUT(Bool, haveIdName);
	emitDoLineNos = lineNos;
	emitFileIdName = haveIdName ? "id" : 0;
	emitTheIntermed(fi, sl, foam, macs);
	VREACH();
}

void h_emitTheDependencies(void)
{
	EmitInfo fi = h_finfo();
	INPUT(Bool, haveIdName);
	emitFileIdName = haveIdName ? "id" : 0;
	emitTheDependencies(fi);
	VREACH();
}

/* a Lisp program of 0..2 top-level forms (bound: class B) */
void h_emitTheLisp(void)
{
	EmitInfo fi = h_finfo();
	INPUT(unsigned, nforms);
	static union SExprUnion nil, c1, c2;
	SExpr code;
	ASSUME(nforms <= 2);
	nil.sxNil.hdr.tag = SX_Nil;
	c1.sxCons.hdr.tag = SX_Cons; c1.sxCons.sxCdrField = &nil;
	c2.sxCons.hdr.tag = SX_Cons; c2.sxCons.sxCdrField = &c1;
	code = nforms == 0 ? &nil : nforms == 1 ? &c1 : &c2;
	emitTheLisp(fi, code);
	VREACH();
}

/* 0..2 Java classes (bound: class B) */
void h_emitTheJava(void)
{
	EmitInfo fi = h_finfo();
	INPUT(unsigned, nfiles);
	static struct JavaCodeListCons j1, j2;
	JavaCodeList l;
	ASSUME(nfiles <= 2);
	j1.rest = 0; j2.rest = &j1;
	l = nfiles == 0 ? listNil(JavaCode) : nfiles == 1 ? &j1 : &j2;
	emitTheJava(fi, l);
	VREACH();
}

/* C code in nparts pieces; nparts > 1 is the split form (header + .c files). (bound: class B) */
#ifndef H_C_MAXPARTS
# define H_C_MAXPARTS 3
#endif
void h_emitTheC(void)
{
	EmitInfo fi = h_finfo();
	INPUT(unsigned, nparts);
	INPUT(Bool, lineNos);
	INPUT(Bool, haveCName);
	static struct CCodeListCons cell[H_C_MAXPARTS];
	static union ccode node[H_C_MAXPARTS], sub[H_C_MAXPARTS];
	INPUT_ARR(UShort, subargc, H_C_MAXPARTS);
	unsigned i;
	CCodeList l;
#ifdef H_C_SINGLE
	ASSUME(nparts <= 1);
#else
	ASSUME(nparts >= 2 && nparts <= H_C_MAXPARTS);
#endif
	for (i = 0; i < H_C_MAXPARTS; i++) {
		sub[i].ccoNode.argc = subargc[i];
		node[i].ccoNode.argc = 1;
		node[i].ccoNode.argv[0] = &sub[i];
		cell[i].first = &node[i];
		cell[i].rest = (i + 1 < nparts) ? &cell[i + 1] : 0;
	}
	l = nparts == 0 ? listNil(CCode) : &cell[0];
	emitDoLineNos = lineNos;
	emitCName = haveCName ? "cname" : 0;
	emitTheC(fi, l);
	VREACH();
}

/* ---- a reference writer: what a checked close looks like.  NOT repository code: it shows that
 *      the contract every writer is held to is satisfiable by the obvious repair. ------------- */
static void
ref_fileCloseChecked(FILE *f, FileName fn)
{
	int bad = ferror(f);
	if (fclose(f) != 0) bad = 1;
	if (bad) v_comsgFatal();
}

void ref_emitTheIncluded(EmitInfo finfo, SrcLineList sll)
{
	FILE	*fout;
	FileName fn;

	fn = emitFileName(finfo, FTYPENO_INCLUDED);
	fout = fileWrOpen(fn);
	inclWrite(fout, sll);
	ref_fileCloseChecked(fout, fn);
	emitSetDone(FTYPENO_INCLUDED);
}

void h_ref_writer(void)
{
	EmitInfo fi = h_finfo();
	SrcLineList sll;
	ref_emitTheIncluded(fi, sll);
	VREACH();
}

#ifdef NATIVE_REPLAY
V_NATIVE_MAIN(ENTRY)
#endif
