/*
 * iomodel.h -- the failing-I/O model of property C18 (shared by the C18 harnesses).
 *
 * "if any write, flush or close of an output fails (device full, unwritable target),
 *  the compiler reports an error and exits non-zero"
 *
 * Output streams are the FILE objects handed out by the open model below (v_stream[]).
 * EVERY stdio output call on such a stream may, nondeterministically, return its failure
 * value.  A failing write/flush sets the stream's sticky error indicator (what ferror()
 * reads) -- a failing fclose() has no indicator left to read: only its return value tells.
 * (That is the /dev/full, ENOSPC and EIO-on-NFS case: buffered fprintf "succeeds", the data
 * is lost in fclose.)
 *
 * Ghost state:
 *   g_io_failed   some write, flush or close of an output stream returned its failure value
 *   g_reported    an error was reported: comsgError / comsgFatal / compFileError /
 *                 exitFailure (or the default file handler) was called
 *   g_err[s]      error indicator of stream s (ferror)
 *   g_open[s]     stream s is open;  g_nopen = streams handed out so far
 *
 * stdout / stderr / dbOut are NOT output files of the property: calls on them never fail
 * in this model (stated in ASSUMPTIONS).
 *
 * A case split on which streams may fail (V_FAIL_ONLY_FIRST / V_FAIL_NOT_FIRST) is used to
 * attribute a failing obligation to one close site of a writer with two (emitTheC).
 */
#ifndef C18_IOMODEL_H
#define C18_IOMODEL_H

#include <stdio.h>
#include <stdarg.h>

#ifndef V_NSTREAM
# define V_NSTREAM 4
#endif

FILE	v_stream[V_NSTREAM];
int	g_nopen;
int	g_open[V_NSTREAM];
int	g_err[V_NSTREAM];
int	g_io_failed;
int	g_reported;
int	g_open_failed;		/* the open model took its failure branch */
FILE	*g_lib_file;		/* harness bookkeeping: the stream of the Lib being written (emit harness) */
void	*g_jco_stream;		/* harness bookkeeping: the OStream of the Java printer context */

_Bool	nondet_v_bool(void);
int	nondet_v_int(void);

#if V_NSTREAM != 4
# error "V_NOPEN_NOW/V_ALL_QUIET are written out for 4 streams"
#endif
#define V_NOPEN_NOW()	((g_open[0] != 0) + (g_open[1] != 0) + (g_open[2] != 0) + (g_open[3] != 0))
#define V_ALL_QUIET()	(!g_open[0] && !g_open[1] && !g_open[2] && !g_open[3] && \
			 !g_err[0] && !g_err[1] && !g_err[2] && !g_err[3])

static int
v_sid(FILE *f)
{
	if (__CPROVER_same_object(f, v_stream))
		return (int) (f - v_stream);
	return -1;
}

static int
v_may_fail(int s)
{
#if defined(V_FAIL_ONLY_FIRST)
	if (s != 0) return 0;
#elif defined(V_FAIL_NOT_FIRST)
	if (s == 0) return 0;
#elif defined(V_FAIL_NEVER)
	return 0;
#endif
	return nondet_v_bool();
}

/* a write or flush on f: returns 1 if it failed */
static int
v_write(FILE *f)
{
	int s = v_sid(f);
	if (s < 0) return 0;
	__CPROVER_assert(g_open[s], "CHECK iomodel: write to a stream that is open");
	if (v_may_fail(s)) {
		g_err[s] = 1;
		g_io_failed = 1;
		return 1;
	}
	return 0;
}

/* ---- stdio under the failing-I/O model --------------------------------- */

/* fprintf: see the note in the harness -- variadic bodies cannot be frame-checked by dfcc, so the
 * harness maps fprintf(f, ...) to v_fprintf(f) */
int
v_fprintf(FILE *f)
{
	int n = nondet_v_int();
	if (v_write(f)) return -1;
	__CPROVER_assume(n >= 0);
	return n;
}

int
vfprintf(FILE *f, const char *fmt, va_list ap)
{
	int n = nondet_v_int();
	if (v_write(f)) return -1;
	__CPROVER_assume(n >= 0);
	return n;
}

int
fputc(int c, FILE *f)
{
	return v_write(f) ? EOF : (unsigned char) c;
}

#undef putc
int
putc(int c, FILE *f)
{
	return v_write(f) ? EOF : (unsigned char) c;
}

int
fputs(const char *s, FILE *f)
{
	return v_write(f) ? EOF : 1;
}

size_t
fwrite(const void *p, size_t sz, size_t n, FILE *f)
{
	size_t k = (size_t) nondet_v_int();
	if (v_write(f)) {
		__CPROVER_assume(k < n || n == 0);
		return n == 0 ? 0 : k;
	}
	return n;
}

int
fflush(FILE *f)
{
	if (f == 0) return 0;
	return v_write(f) ? EOF : 0;
}

int
fseek(FILE *f, long off, int whence)
{
	/* seeking flushes the buffer: may fail like a flush */
	return v_write(f) ? -1 : 0;
}

/* rewind() and clearerr() CLEAR the stream's error indicator (C99 7.19.9.5, 7.19.10.1): a writer that calls them
 * between a failed write and the close forgets the failure */
void
rewind(FILE *f)
{
	int s = v_sid(f);
	if (s >= 0) g_err[s] = 0;
}

void
clearerr(FILE *f)
{
	int s = v_sid(f);
	if (s >= 0) g_err[s] = 0;
}

int
ferror(FILE *f)
{
	int s = v_sid(f);
	if (s < 0) return 0;
	return g_err[s];
}

int
fclose(FILE *f)
{
	int s = v_sid(f);
	if (s < 0) return 0;
	__CPROVER_assert(g_open[s], "CHECK iomodel: fclose of a stream that is open (no double close)");
	g_open[s] = 0;
	/* a pending error indicator does not make close fail by itself; the flush in close may fail */
	if (v_may_fail(s)) {
		g_io_failed = 1;
		return EOF;
	}
	return 0;
}

/* ---- the open model: what file.c:fileMustOpen guarantees (enforced on the real
 *      fileMustOpen/fileDefaultHandler/compFileError in the file.* jobs) ------------- */
static FILE *
v_open(void)
{
	int s;
	if (nondet_v_bool()) {		/* open failed: reported by the handler, which does not return */
		g_open_failed = 1;
		g_reported = 1;
		__CPROVER_assume(0);
	}
#ifdef V_STREAM_BOUND_ASSUMED
	__CPROVER_assume(g_nopen < V_NSTREAM);	/* bound on files per writer call: such jobs are class B */
#else
	__CPROVER_assert(g_nopen < V_NSTREAM, "CHECK iomodel: stream pool is large enough (no hidden bound)");
	__CPROVER_assume(g_nopen < V_NSTREAM);
#endif
	s = g_nopen++;
	g_open[s] = 1;
	g_err[s] = 0;
	return &v_stream[s];
}

#endif
