/*
 * C18 harness for lib.c: libClose (and through it libPutHeader) and libPutSection on a library
 * opened for writing.  The real lib.c is included verbatim; stdio is the failing-I/O model.
 * Variadic callees are routed to non-variadic models (see the note in emit_h.c).
 */
#include <stdio.h>
#include "axlgen.h"
#include "comsg.h"
#include "util.h"
extern int  v_fprintf(FILE *f);
extern void v_comsgFatal(void);
extern void v_comsgError(void);
extern void v_bug(void);
#define fprintf(f, ...)  v_fprintf(f)
#define comsgFatal(...)  v_comsgFatal()
#define comsgError(...)  v_comsgError()
#define bug(...)         v_bug()
#include "lib.c"
#undef fprintf
#undef comsgFatal
#undef comsgError
#undef bug

#include "vharness.h"
#define V_STUB_STO
#include "stubs.h"
#include "iomodel.h"

#define C_EMIT_NO_WRITERS	/* only the lib.c part of the contract header */
#include "c_emit.h"

void v_comsgFatal(void) { g_reported = 1; __CPROVER_assume(0); }
void v_comsgError(void) { g_reported = 1; }

/* ---- closing: the contract of file.c:fileClose (enforced on the real text in file_h.c, job file.fileClose.*):
 *      close once; a pending stream error or a failing close goes to the error handler (reported, no return) */
void fileClose(FILE *f, FileName fn)
{
	int bad = ferror(f) != 0;
	if (fclose(f) != 0) bad = 1;
	if (bad) { g_reported = 1; __CPROVER_assume(0); }
}
void v_bug(void)        { g_diag = 1; __CPROVER_assume(0); }	/* visible abort, does not return */
int nondet_v_assertions_on(void);
void _do_assert(char *str, char *file, int line) { if (nondet_v_assertions_on()) { g_diag = 1; __CPROVER_assume(0); } }	/* assertions are off unless -Wcheck: the path may go on */

/* ---- environment of libClose / libPutHeader / libPutSection (no stream I/O) ---- */
static const char h_bufbytes[8];
static const long h_bufobj;	/* struct buffer is private to buffer.c: an opaque non-NULL handle */
Buffer bufNew(void)                         { return (Buffer) &h_bufobj; }
String bufChars(Buffer b)                   { return (String) h_bufbytes; }
Length bufPosition(Buffer b)                { return (Length) nondet_v_int(); }
void   bufFree(Buffer b)                    { }
void   bufPutByte(Buffer b, UByte c)        { }
void   bufPutHInt(Buffer b, UShort h)       { }
void   bufPutSInt(Buffer b, ULong i)        { }
void   fnameFree(FileName fn)               { }
String fnameUnparse(FileName fn)            { return (String) "x.ao"; }
String fnameUnparseStatic(FileName fn)      { return (String) "x.ao"; }
void   foamFree(Foam foam)                  { }
void   stabFree(Stab stab)                  { }
Table  tblDrop(Table t, TblKey k)            { return t; }
static void h_syme_free(SymeList l)         { }
static void h_tform_free(TFormList l)       { }
static const struct Syme_listOpsStruct  h_syme_ops  = { .Free = h_syme_free };
static const struct TForm_listOpsStruct h_tform_ops = { .Free = h_tform_free };
struct Syme_listOpsStruct const  *Syme_listPointer;
struct TForm_listOpsStruct const *TForm_listPointer;

static void
h_init_tables(void)
{
	/* dfcc makes non-const globals arbitrary: re-establish the dispatch tables; lib.c's own statics
	 * (libHdrMagic, libMajorVersion, libLibTbl ...) stay arbitrary */
	Syme_listPointer  = &h_syme_ops;
	TForm_listPointer = &h_tform_ops;
}

Lib nondet_lib(void);

void h_libClose(void)
{
	Lib lib = nondet_lib();
	h_init_tables();
	libClose(lib);
	VREACH();
}

/* the call site's precondition: what the real libWrite hands to emitTheIntermed (and so to libClose) */
FILE *fileMustOpen(FileName fn, IOMode mode) { return v_open(); }
FileName fnameCopy(FileName fn) { return fn; }
FileName nondet_fname(void);
void h_libWrite(void)
{
	FileName fn = nondet_fname();
	Lib lib;
	g_nopen = 0; g_reported = 0; g_io_failed = 0; g_open_failed = 0;
	lib = libWrite(fn);
	CHECK("libWrite: the library is writable, marked as an output, and owns the one open stream",
	      lib != 0 && lib->rdOnly == 0 && lib->isOutput != 0 && lib->file == &v_stream[0] && g_nopen == 1 && g_open[0] && lib->unitb == 0);
	VREACH();
}

#ifdef NATIVE_REPLAY
V_NATIVE_MAIN(ENTRY)
#endif
