"""C18 jobs: a failing write/flush/close of an output is reported; exit 0 means the file is complete.

Obligation ids of the writers (contracts/c_emit.h keeps the ensures clauses in this order):
   <writer>.postcondition.1   g_io_failed ==> g_reported            (failed I/O is reported)
   <writer>.postcondition.2   emitDone[K] ==> !g_io_failed          (done only for a complete file)
   <writer>.postcondition.3   !g_io_failed ==> done, opened, closed  (success leaves a complete file)
"""

ASSUMPTIONS = [
    "failing-I/O model (harness/C18/iomodel.h): every fprintf/vfprintf/fputc/putc/fputs/fwrite/fflush/fseek/fclose on an output "
    "stream may nondeterministically return its failure value; a failed write/flush sets the stream's sticky error indicator "
    "(ferror), a failed fclose is visible only in its return value",
    "output streams are the FILE objects returned by fileMustOpen; stdout/stderr/dbOut never fail in the model "
    "(emitTheDependencies' printf to stdout is therefore not held to the reporting obligation; the exit path is not covered)",
    "text producers (inclWrite, abWrSExpr, symeListWrSExpr, sxiWrite, foamWrSExpr, ccoPrint, jcoWrite, ostreamPrintf, libPut*) "
    "are harness bodies doing exactly one may-fail write on the stream they are given and touching nothing else",
    "reported = comsgError, comsgFatal, exitFailure or the file-open error handler was called (comsgFatal/exitFailure do not return); "
    "comsgWarning is not a report; bug()/assert is a visible abort (does not return)",
    "emitFileName is replaced by the contract c_emitFileName (fresh FileName with three readable parts, no output-stream I/O); "
    "the lock/temp files it may create and close (emit.c l.501) are not outputs requested on the command line",
    "fileMustOpen in the emit/lib harnesses is its contract 'returns an open stream or reports and does not return', "
    "which the file.* jobs enforce on the real file.c:fileMustOpen with the real default handler and the real axlcomp.c:compFileError",
]

EMIT_ASSUMED = ["c_emitFileName (replaced, not enforced)", "fileMustOpen open-model (enforced in file.* jobs)",
                "text-producer stubs: one may-fail write each", "allocator stub"]
RFN = ["emitFileName/c_emitFileName"]

SIMPLE = ["emitTheIncluded", "emitTheAbSyn", "emitTheOldAbSyn", "emitTheSymbolExpr",
          "emitTheAnnotatedAbSyn", "emitTheFoamExpr"]


def jobs(tier):
    js = []

    def E(name, fn, entry=None, defs=(), cls="P", bound=None, kind="obligation", cbmc=(), inputs=(), replace=(),
          functions=None, enforce=None, timeout=200, assumed=()):
        js.append({"name": name, "src": "emit_h.c", "entry": entry or ("h_" + fn),
                   "enforce": ["%s/c_%s" % (fn, fn)] if enforce is None else enforce,
                   "replace": RFN + list(replace), "functions": [fn] if functions is None else functions,
                   "inputs": list(inputs), "defs": list(defs), "cls": cls, "bound": bound, "kind": kind,
                   "cbmc": list(cbmc), "native": False, "timeout": timeout,
                   "assumed": EMIT_ASSUMED + list(assumed)})

    for fn in SIMPLE:
        E("emit." + fn, fn, inputs=["lineNos"])
    # .ao: modular -- libClose replaced by its contract (enforced on the real lib.c in lib.libClose)
    E("emit.emitTheIntermed.modulo_c_libClose", "emitTheIntermed", replace=["libClose/c_libClose"],
      inputs=["lineNos", "haveIdName"], assumed=["c_libClose (enforced in lib.libClose: FAILS there today)"])
    E("emit.emitTheDependencies", "emitTheDependencies", inputs=["haveIdName"])
    W = "_wrapped_for_contract_checking"

    def US(*pairs):
        return ["--unwindset", ",".join("%s:%d" % p for p in pairs), "--unwinding-assertions"]
    E("emit.emitTheLisp", "emitTheLisp", cls="B", bound="<= 2 top-level Lisp forms",
      cbmc=US(("emitTheLisp" + W + ".0", 4)), inputs=["nforms"])
    E("emit.emitTheJava", "emitTheJava", cls="B", bound="<= 2 Java classes",
      cbmc=US(("emitTheJava" + W + ".0", 4)), inputs=["nfiles"],
      functions=["emitTheJava", "emitOneJavaFile", "ostreamNewFrFile", "ostreamWrite", "ostreamWriteChar", "ostreamClose"])
    CIN = ["nparts", "lineNos", "haveCName", "subargc"]
    # emitTheC loops: .0 = the 5-character prefix copy (constant FN_PREF_LEN), .1 = the loop over the C parts
    UNC = US(("emitTheC" + W + ".0", 6), ("emitTheC" + W + ".1", 5), ("h_ccode_length.0", 5),
             ("h_fname_nreverse.0", 5), ("h_emitTheC.0", 4), ("v_sprintf_prec_d.0", 12))
    E("emit.emitTheC.single_file.close_l1112", "emitTheC", defs=["-DH_C_SINGLE"], cls="P", cbmc=UNC, inputs=CIN)
    E("emit.emitTheC.split.c_files.close_l1112", "emitTheC", defs=["-DV_FAIL_NOT_FIRST"], cls="B",
      bound="2..3 C parts (header + <= 2 .c files); failures injected on the .c streams only", cbmc=UNC, inputs=CIN)
    E("emit.emitTheC.split.header.close_l1122", "emitTheC", defs=["-DV_FAIL_ONLY_FIRST"], cls="B",
      bound="2..3 C parts; failures injected on the header stream only", cbmc=UNC, inputs=CIN)
    # lib.c: the real libClose (-> libPutHeader -> libChkHeader, fseek/fwrite/fflush, fclose) in write mode.
    #   c_libClose.postcondition.1 = failed write/flush/close of the .ao is reported   .2 = closed   .3 = ghost flags sticky
    LIB_ASSUMED = ["buffer/fname/table/list environment stubs of lib_h.c (no stream I/O)", "allocator stub"]
    LUN = US(("libChkHeader.0", 21), ("libChkHeader.1", 21), ("libPutHeader.0", 21))   # LIB_INDEX_LIMIT <= LIB_HDR_LIMIT = 20
    js.append({"name": "lib.libClose.write_mode", "src": "lib_h.c", "entry": "h_libClose", "cbmc": LUN,
               "enforce": ["libClose/c_libClose"], "functions": ["libClose", "libPutHeader", "libChkHeader", "libUnRegister",
                                                                 "libClearSymes", "libClearTypes", "libClearFoam", "libClearPos"],
               "inputs": [], "cls": "P", "native": False, "timeout": 200, "assumed": LIB_ASSUMED})
    js.append({"name": "sanity.lib.libClose.no_io_failure", "src": "lib_h.c", "entry": "h_libClose", "defs": ["-DV_FAIL_NEVER"], "cbmc": LUN,
               "enforce": ["libClose/c_libClose"], "functions": ["libClose", "libPutHeader"],
               "inputs": [], "cls": "P", "native": False, "timeout": 200, "assumed": LIB_ASSUMED})
    # attribution: nothing fails inside libClose, but a section writer (libPutSection: fwrite+fflush, results ignored)
    # failed earlier and left the stream's error indicator set -- libClose never looks at ferror()
    js.append({"name": "lib.libClose.pending_error_from_section_writers", "src": "lib_h.c", "entry": "h_libClose",
               "defs": ["-DV_FAIL_NEVER", "-DC18_PENDING_ALLOWED"], "cbmc": LUN,
               "enforce": ["libClose/c_libClose"], "functions": ["libClose", "libPutHeader"],
               "inputs": [], "cls": "P", "native": False, "timeout": 200, "assumed": LIB_ASSUMED})
    js.append({"name": "lib.libWrite.marks_output", "src": "lib_h.c", "entry": "h_libWrite", "defs": ["-DV_FAIL_NEVER"],
               "cbmc": LUN, "functions": ["libWrite", "libNew", "libNewHeader"], "inputs": [], "cls": "P", "native": False,
               "timeout": 200, "assumed": LIB_ASSUMED})
    # the open side (PASSES today): fileMustOpen never returns NULL -- an open failure is reported and does not return
    def F(name, defs, fns, kind="obligation"):
        js.append({"name": name, "src": "file_h.c", "entry": "h_fileMustOpen", "defs": defs, "kind": kind,
                   "enforce": ["fileMustOpen/c_fileMustOpen"], "replace": ["fileEnsureDirectory/c_fileEnsureDirectory"],
                   "functions": fns, "inputs": [], "cls": "P", "native": False, "timeout": 200,
                   "assumed": ["c_fileEnsureDirectory (replaced, not enforced)", "fopen may return NULL nondeterministically"]})
    F("file.fileMustOpen.default_handler", [], ["fileMustOpen", "fileTryOpen", "fileDefaultHandler", "fileSetHandler"])
    F("file.fileMustOpen.compFileError", ["-DH_WITH_AXLCOMP"], ["fileMustOpen", "fileTryOpen", "compFileError", "fileSetHandler"])
    # the close side (since the fix: every writer closes through file.c:fileClose): plain harnesses on the real text
    for nm, defs in (("file.fileClose.default_handler", []), ("file.fileClose.compFileError", ["-DH_WITH_AXLCOMP"]),
                     ("canary.file.fileClose.pending_error_ignored", ["-DCANARY_fileClose"])):
        js.append({"name": nm, "src": "file_h.c", "entry": "h_fileClose", "defs": defs,
                   "kind": "canary" if nm.startswith("canary") else "obligation",
                   "functions": ["fileClose", "fileDefaultHandler", "fileSetHandler"] + (["compFileError"] if defs == ["-DH_WITH_AXLCOMP"] else []),
                   "inputs": [], "cls": "P", "native": False, "timeout": 200,
                   "assumed": ["ferror/fclose per harness/C18/iomodel.h (close may fail nondeterministically)"]})
    F("canary.file.fileMustOpen.handler_returns_null", ["-DCANARY_handler_returns_null"], ["fileMustOpen"], kind="canary")
    # sanity (must PASS): with no injected I/O failure every writer clause holds -> the red above is the I/O, not the harness
    for fn in ("emitTheIncluded", "emitTheFoamExpr"):
        E("sanity.emit.%s.no_io_failure" % fn, fn, defs=["-DV_FAIL_NEVER"], inputs=["lineNos"])
    E("sanity.emit.emitTheC.split.no_io_failure", "emitTheC", defs=["-DV_FAIL_NEVER"], cls="B",
      bound="2..3 C parts", cbmc=UNC, inputs=CIN)
    # sanity (must PASS): the obvious repair (ferror|fclose checked, fatal on failure) satisfies the same contract
    E("sanity.model.checked_close_satisfies_contract", "emitTheIncluded", entry="h_ref_writer",
      enforce=["ref_emitTheIncluded/c_emitTheIncluded"], functions=[])
    # canary (must FAIL): clause 3 claiming the stream is left open
    E("canary.emit.emitTheIncluded.success_complete", "emitTheIncluded", defs=["-DV_FAIL_NEVER", "-DCANARY_success_complete"],
      kind="canary")
    return js
