/*
 * C18 harness for the OPEN side: the real file.c:fileMustOpen / fileTryOpen / fileDefaultHandler and
 * the real axlcomp.c:compFileError (the handler compInit installs).  This is the part of the
 * property the code already gets right: a target that cannot be opened is reported and the compiler
 * does not carry on with a NULL stream.  These jobs discharge the open model (v_open in iomodel.h)
 * that the writer harnesses assume.
 */
#include <stdio.h>
#include "axlgen.h"
#include "comsg.h"
#include "util.h"
#include "format.h"
#include "bloop.h"
extern int  v_fprintf(FILE *f);
extern void v_comsgFatal(void);
extern void v_comsgError(void);
extern void v_bug(void);
extern int  v_nop(void);
#define fprintf(f, ...)         v_fprintf(f)
#define comsgFatal(...)         v_comsgFatal()
#define comsgError(...)         v_comsgError()
#define bug(...)                v_bug()
#define afprintf(...)           v_nop()
#define bloopMsgFPrintf(...)    v_nop()
#include "file.c"
#ifdef H_WITH_AXLCOMP
# include "axlcomp.c"
#endif
#undef fprintf
#undef comsgFatal
#undef comsgError
#undef bug
#undef afprintf
#undef bloopMsgFPrintf

#include "vharness.h"
#include "stubs.h"
#include "iomodel.h"
#define C_EMIT_NO_LIB
#define C_EMIT_NO_WRITERS
#include "c_emit.h"

int  v_nop(void)        { return 0; }
void v_comsgFatal(void)
{
	__CPROVER_assert(!g_open_failed, "VCOVER open failure reaches comsgFatal (reported, does not return)");
	g_reported = 1; __CPROVER_assume(0);
}
void v_comsgError(void) { g_reported = 1; }
void v_bug(void)        { g_diag = 1; __CPROVER_assume(0); }
void exitFailure(void)
{
	__CPROVER_assert(!g_open_failed, "VCOVER open failure reaches exitFailure (reported, does not return)");
	g_reported = 1; __CPROVER_assume(0);
}

/* ---- environment ------------------------------------------------------------ */
String fnameUnparseStatic(FileName fn)  { return (String) "out.ext"; }
Bool   osDirIsThere(String dn)          { return nondet_v_bool(); }
Bool   comsgOkBreakLoop(void)           { return nondet_v_bool(); }

/* fopen may fail (unwritable target, missing directory, EMFILE ...) */
FILE *
fopen(const char *name, const char *mode)
{
	int s;
	if (nondet_v_bool()) { g_open_failed = 1; return (FILE *) 0; }
	__CPROVER_assert(g_nopen < V_NSTREAM, "CHECK iomodel: stream pool is large enough (no hidden bound)");
	__CPROVER_assume(g_nopen < V_NSTREAM);
	s = g_nopen++;
	g_open[s] = 1;
	g_err[s] = 0;
	return &v_stream[s];
}

#ifdef CANARY_handler_returns_null
/* canary: a handler that swallows the failure and hands back NULL -- the slip the property is about */
static FILE *h_bad_handler(FileName fn, IOMode mode) { return (FILE *) 0; }
#endif

static FILE h_stderr;	/* dfcc makes the global `stderr' arbitrary: point it at a stream that is not an output file */

FileName nondet_fname(void);
IOMode	 nondet_iomode(void);

void h_fileMustOpen(void)
{
	FileName fn = nondet_fname();
	IOMode   mode = nondet_iomode();
	FILE	*f;
	stderr = &h_stderr;
	/* dfcc makes file.c's static handler pointer arbitrary: install the handler under test */
#if defined(CANARY_handler_returns_null)
	fileSetHandler(h_bad_handler);
#elif defined(H_WITH_AXLCOMP)
	fileSetHandler(compFileError);		/* what compInit does (axlcomp.c l.637) */
#else
	fileSetHandler((FileErrorFun) 0);	/* = file.c's fileDefaultHandler */
#endif
	f = fileMustOpen(fn, mode);
	VREACH();
}

/* the real file.c:fileClose: a stream on which earlier writes may have failed (sticky error indicator, as after
 * any of the model's may-fail writes), closed through the handler under test */
void h_fileClose(void)
{
	FileName fn = nondet_fname();
	FILE	*f;
	stderr = &h_stderr;
#if defined(H_WITH_AXLCOMP)
	fileSetHandler(compFileError);
#else
	fileSetHandler((FileErrorFun) 0);
#endif
	g_nopen = 1; g_open[0] = 1; g_reported = 0; g_open_failed = 0; g_io_failed = 0;
	f = &v_stream[0];
	if (nondet_v_bool()) { g_err[0] = 1; g_io_failed = 1; } else g_err[0] = 0;	/* an earlier write failed, or not */
	fileClose(f, fn);
#ifdef CANARY_fileClose
	CHECK("canary: fileClose leaves the stream open", g_open[0]);
#endif
	CHECK("fileClose returned: the stream is closed", !g_open[0]);
	CHECK("fileClose returned: no write, flush or close of the stream had failed", !g_io_failed);
	VREACH();
}

#ifdef NATIVE_REPLAY
V_NATIVE_MAIN(ENTRY)
#endif
