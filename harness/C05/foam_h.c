/* C05 harnesses for the FOAM byte codec: the real foam.c, buffer.c, int.c, strops.c are included verbatim.
 * Plain cbmc (no dfcc): foam.c's tables (foamInfoTable) must keep their initialisers.
 * Nodes are the REAL union foam, built by the real foamNewAlloc. */
#include "foam.c"
#include "buffer.c"
#include "int.c"
#include "strops.c"
#include "vharness.h"
#define V_STUB_BUG_UNREACHABLE
#define V_STUB_MEMCHR
#include "stubs.h"
#define C_BUFFER_HARNESS_SUPPORT
#define C_BUFFER_STO_REFUSING
#ifndef V_EXACT_FOAM_NODES
#define V_ALLOC_FOAM_NODES
#endif
#include "c_buffer.h"
#include "c_foam_codec.h"

/* foamInit() only interns the printable names of the tags (sxsym) and registers printf formatters;
 * the codec does not use them.  Harness precondition: it already ran. */
#define V_FOAM_READY()  (foamIsInit = true)

static Foam v_mk_sint(long v)
{
	Foam f = foamNewAlloc(FOAM_SInt, sizeof(Foam));
	f->hdr.argc = 1;
	f->foamSInt.SIntData = v;
	return f;
}

/* foamSIntReduce: for ALL 2^64 values the returned tree denotes the original value */
void h_foamSIntReduce(void)
{
	INPUT(long, v);
	V_FOAM_READY();
	Foam f = v_mk_sint(v);
	Foam r = foamSIntReduce(f);
	v_ev_ok = 1;
	long e = v_eval(r, V_EV_DEPTH);
	CHECK("foamSIntReduce: result is inside the SInt/ShiftUp/Or/Negate grammar and every leaf fits the 4-byte form", v_ev_ok);
#ifndef CANARY_reduce
	CHECK("foamSIntReduce: [[result]] == v for every 64-bit v", e == v);
#else   /* canary: sign dropped */
	CHECK("foamSIntReduce canary", e == (v < 0 ? -v : v));
#endif
	CHECK("foamSIntReduce: a value that fits is returned as the same node", SPEC_FITS_SINT4(v) ? r == f : r != f);
	CHECK("foamSIntReduce: the argument node is not modified", foamTag(f) == FOAM_SInt && f->foamSInt.SIntData == v && foamArgc(f) == 1);
	VREACH();
}

/* foamTagFormat (the format the writer packs into the tag byte): every compressible integer field ('i' in the
 * node's argf) must be inside the domain of the format chosen for the node, because foamToBuffer writes all of
 * them with FOAM_PUT_INT(format, ...) and the reader gets back only what that format can carry */
#ifndef TAGFMT_TAG
#define TAGFMT_TAG FOAM_EElt
#endif
void h_foamTagFormat(void)
{
	INPUT(long, f0); INPUT(long, f1); INPUT(long, f2); INPUT(long, f3);
	INPUT(int, gi);			/* ghost: one of the node's slots */
	long fv[4]; int fmt, argc, fi, si; String argf;
	V_FOAM_READY();
	fv[0] = f0; fv[1] = f1; fv[2] = f2; fv[3] = f3;
	argc = foamInfo(TAGFMT_TAG).argc;
	argf = foamInfo(TAGFMT_TAG).argf;
	ASSUME(argc >= 1 && argc <= 4 && gi >= 0 && gi < argc);
	/* the node is written as ONE whole-struct assignment into an exact-size object, so that symbolic execution sees
	 * the tag as a constant and follows only this tag's branch of foamTagFormat */
	struct foamGen sg; Foam f = (Foam) malloc(sizeof sg);
	ASSUME(f != 0);
	memset(&sg, 0, sizeof sg);
	sg.hdr.tag = TAGFMT_TAG; sg.hdr.argc = argc;
	for (si = 0; si < 4; si++) {
		/* integer fields: indices, levels, format numbers -- non-negative ints as genfoam produces them */
		ASSUME(fv[si] >= 0 && fv[si] <= 0x7fffffffL);
		sg.argv[si].data = fv[si];
	}
	f->foamGen = sg;
	fmt = foamTagFormat(f);
	CHECK("foamTagFormat: a format the tag byte can carry", fmt >= 0 && FOAM_FORMAT_PUT(TAGFMT_TAG, fmt) <= 255);
	if (argf[gi] == 'i')
		CHECK("foamTagFormat: every integer field of the node is inside the chosen format's domain", SPEC_FMT_DOMAIN(fmt, fv[gi]));
#ifdef CANARY_tagfmt
	CHECK("canary: the one-byte format is always enough", fmt != 0);
#endif
	VREACH();
}

/* FOAM_PUT_INT then FOAM_GET_INT (the real macros) is the identity on each format's domain, and consumes
 * exactly the bytes produced */
void h_foam_put_get_int(void)
{
	INPUT(Length, argc); INPUT(Length, pos); V_INPUT_ARR(UByte, data, BUFCAP); INPUT(int, fmt); INPUT(long, v);
	ASSUME(argc <= 64 && argc >= 2 && pos <= argc);
	ASSUME(fmt >= 0 && fmt <= 255);                       /* every format a tag byte can carry */
	ASSUME(SPEC_FMT_DOMAIN(fmt, v));
	Buffer b = v_mk_buffer(argc, pos, data);
	int n = 0;
	FOAM_PUT_INT(fmt, b, v);
	Length end = bufPosition(b);
	bufSetPosition(b, pos);
	FOAM_GET_INT(fmt, b, n);
#ifndef CANARY_putget
	CHECK("FOAM_GET_INT(FOAM_PUT_INT(v)) == v on the format's domain", (long) n == v);
#else   /* canary: claims format 1 carries signed bytes */
	CHECK("put/get canary", fmt == 1 ? (long)(signed char) n == v : (long) n == v);
#endif
	CHECK("FOAM_PUT_INT wrote SPEC_FMT_BYTES(fmt) bytes and FOAM_GET_INT consumed the same", end == pos + SPEC_FMT_BYTES(fmt) && bufPosition(b) == end);
	VREACH();
}

/* FOAM_FORMAT_FOR picks a format whose domain holds the value (labels, 'F'/'L' fields) */
void h_foam_format_for(void)
{
	INPUT(int, n);
	ASSUME(n >= 0);                                      /* label counts */
	int fmt = FOAM_FORMAT_FOR(n);
	CHECK("FOAM_FORMAT_FOR(n) is a format whose domain contains n", SPEC_FMT_DOMAIN(fmt, n));
	VREACH();
}

/* the tag byte: FORMAT_PUT then FORMAT_GET/REMOVE give back (tag, format) for every tag that is written with a
 * format, and EVERY byte decodes to a tag inside [FOAM_START, FOAM_LIMIT) -- so foamInfo(tag) is in range */
void h_foam_tag_byte(void)
{
	INPUT(int, tag); INPUT(int, fmt); INPUT(UByte, byte);
	int t2 = byte, f2 = FOAM_FORMAT_GET(t2);
	t2 = FOAM_FORMAT_REMOVE(t2, f2);
	CHECK("every tag byte decodes to a tag in [FOAM_START, FOAM_LIMIT)", t2 >= FOAM_START && t2 < FOAM_LIMIT && f2 >= 0);
	/* what foamToBuffer writes: format = foamTagFormat(foam) in [0, NUM_FORMS), and 0 below FFO_ORIGIN */
	if (tag >= FOAM_START && tag < FOAM_LIMIT && fmt >= 0 && fmt < NUM_FORMS && (tag < FFO_ORIGIN ? fmt == 0 : 1)) {
		int w = FOAM_FORMAT_PUT(tag, fmt), f3 = FOAM_FORMAT_GET(w), t3 = FOAM_FORMAT_REMOVE(w, f3);
		CHECK("FORMAT_PUT(tag, format) fits the tag byte and FORMAT_GET/REMOVE invert it", w >= 0 && w <= 255 && t3 == tag && f3 == fmt);
	}
	CHECK("foamTagLimit() fits the tag byte", foamTagLimit() <= 256);
	VREACH();
}

/* ---- one node written by the real foamToBuffer and read back by the real foamFrBuffer --------------------
 * V_TAG: a one-slot data tag; V_DOM(v): the values the slot can hold (per job).  Obligation (property text):
 * the node read back is the same node: tag, argc, payload; and the reader consumes exactly what was written.
 * The payload comparison is the code's own criterion too (foamEqual compares .data). */
#ifdef V_TAG
void h_rt_node(void)
{
	INPUT(long, v);
	ASSUME(V_DOM(v));
	V_FOAM_READY();
	Foam f = foamNewAlloc(V_TAG, sizeof(Foam));
	f->hdr.argc = 1;
	f->foamGen.argv[0].data = v;
	Buffer b = bufNew();
	int n = foamToBuffer(b, f);
	Length end = bufPosition(b);
	bufSetPosition(b, 0);
	Foam r = foamFrBuffer(b);
	CHECK("one node: same tag and argc after foamToBuffer/foamFrBuffer", r != 0 && foamTag(r) == V_TAG && foamArgc(r) == 1);
#ifndef CANARY_rtnode
	CHECK("one node: same payload after foamToBuffer/foamFrBuffer", r->foamGen.argv[0].data == v);
#else
	CHECK("one node canary", r->foamGen.argv[0].data == (v & 0x7fff));
#endif
	CHECK("one node: reader consumed exactly what the writer produced", bufPosition(b) == end && (Length) n == end);
	VREACH();
}
#endif

#ifdef NATIVE_REPLAY
V_NATIVE_MAIN(ENTRY)
#endif
