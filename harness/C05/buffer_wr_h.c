/* C05 harnesses for the buffer.c writers and the put/get pairs: the real buffer.c is included verbatim.
 * bug()/_do_assert() must NOT be reached when writing or when reading back what was just written. */
#include "buffer.c"
#include "strops.c"     /* strAlloc, strLength */
#include "int.c"        /* longIsInt32: the body of bufIsSInt */
#include "vharness.h"
#define V_STUB_BUG_UNREACHABLE
#define V_STUB_STO
#define V_STUB_MEMCHR
#include "stubs.h"
#define C_BUFFER_HARNESS_SUPPORT
#include "c_buffer.h"

#ifndef V_WR_ARGC_MAX
# define V_WR_ARGC_MAX 64      /* writers may realloc: the object is copied, keep it small */
#endif

#define BUF_INPUTS \
	INPUT(Length, argc); INPUT(Length, pos); V_INPUT_ARR(UByte, data, BUFCAP); INPUT(Length, gi); \
	ASSUME(argc <= V_WR_ARGC_MAX); \
	Buffer b = v_mk_buffer(argc, pos, data); UByte *argv0 = b->argv; \
	g_ix = gi; \
	ASSUME(PRE_bufWr(b)); \
	UByte oldg = argv0[gi]

void h_bufAdd1(void)
{
	BUF_INPUTS; INPUT(int, c);
	int r = bufAdd1(b, c);
	CHECK("c_bufAdd1.postcondition", POST_bufAdd1(b, c, pos, argc, argv0, oldg, r));
	VREACH();
}

/* NOT a job (outside the call-site precondition argc >= 2): what happens on a full buffer of < 2 bytes --
 * bufGrow(b, argc/2) grows by 0 and bufAdd1 stores one byte past the object.  Kept for hand runs. */
void h_bufAdd1_tiny(void)
{
	INPUT(Length, argc); INPUT(Length, pos); V_INPUT_ARR(UByte, data, BUFCAP); INPUT(int, c);
	ASSUME(argc < 2 && pos <= argc);
	Buffer b = v_mk_buffer(argc, pos, data);
	bufAdd1(b, c);
	CHECK("bufAdd1 on a full buffer of < 2 bytes stays inside the object", b->pos <= b->argc);
	VREACH();
}

void h_bufPutByte(void)
{
	BUF_INPUTS; INPUT(UByte, v);
	bufPutByte(b, v);
	CHECK("c_bufPutByte.postcondition", POST_bufPutByte(b, v, pos, argc, argv0, oldg));
	VREACH();
}

void h_bufPutHInt(void)
{
	BUF_INPUTS; INPUT(UShort, v);
	bufPutHInt(b, v);
	CHECK("c_bufPutHInt.postcondition", POST_bufPutHInt(b, v, pos, argc, argv0, oldg));
	VREACH();
}

void h_bufPutSInt(void)
{
	BUF_INPUTS; INPUT(ULong, v);
	bufPutSInt(b, v);
	CHECK("c_bufPutSInt.postcondition", POST_bufPutSInt(b, v, pos, argc, argv0, oldg));
	VREACH();
}

void h_bufWrUByte(void)
{
	BUF_INPUTS; INPUT(UByte, v);
	int r = bufWrUByte(b, v);
	CHECK("c_bufWrUByte.postcondition", r == 1 && POST_bufPutByte(b, v, pos, argc, argv0, oldg));
	VREACH();
}

void h_bufWrUShort(void)
{
	BUF_INPUTS; INPUT(UShort, v);
	int r = bufWrUShort(b, v);
	CHECK("c_bufWrUShort.postcondition", r == 2 && POST_bufPutHInt(b, v, pos, argc, argv0, oldg));
	VREACH();
}

void h_bufWrULong(void)
{
	BUF_INPUTS; INPUT(ULong, v);
	int r = bufWrULong(b, v);
	CHECK("c_bufWrULong.postcondition", r == 4 && POST_bufPutSInt(b, v, pos, argc, argv0, oldg));
	VREACH();
}

void h_bufIsSInt(void)
{
	INPUT(long, v);
	Bool r = bufIsSInt(v);
	CONTRACT_POST("c_bufIsSInt.postcondition", POST_bufIsSInt(v, r));
	VREACH();
}

/* ---- round trips on the REAL bodies (do not rest on ENC_/DEC_ being right) ---------------------- */
#define RT_INPUTS \
	INPUT(Length, argc); INPUT(Length, pos); V_INPUT_ARR(UByte, data, BUFCAP); \
	ASSUME(argc <= V_WR_ARGC_MAX && argc >= 2 && pos <= argc); \
	Buffer b = v_mk_buffer(argc, pos, data)

void h_rt_byte(void)
{
	RT_INPUTS; INPUT(UByte, v);
	bufPutByte(b, v);
	Length end = bufPosition(b);
	bufSetPosition(b, pos);
	UByte r = bufGetByte(b);
#ifndef CANARY_rt
	CHECK("rt: bufGetByte(bufPutByte(v)) == v for every byte", r == v);
#else
	CHECK("rt canary", r == (UByte)(v & 0x7f));
#endif
	CHECK("rt: reader consumed exactly what the writer produced", bufPosition(b) == end && end == pos + 1);
	VREACH();
}

void h_rt_hint(void)
{
	RT_INPUTS; INPUT(UShort, v);
	bufPutHInt(b, v);
	Length end = bufPosition(b);
	bufSetPosition(b, pos);
	UShort r = bufGetHInt(b);
	CHECK("rt: bufGetHInt(bufPutHInt(v)) == v for every 16-bit value", r == v);
	CHECK("rt: reader consumed exactly what the writer produced", bufPosition(b) == end && end == pos + 2);
	VREACH();
}

void h_rt_sint(void)
{
	RT_INPUTS; INPUT(long, v);
	/* stated domain of the 4-byte form: bufIsSInt (callers assert it, foam.c case 'w') */
	ASSUME(bufIsSInt(v));
	bufPutSInt(b, v);
	Length end = bufPosition(b);
	bufSetPosition(b, pos);
	ULong u = bufGetSInt(b);
	int n = u;                         /* as every caller does: int n = bufGetSInt(buf) */
	CHECK("rt: (int) bufGetSInt(bufPutSInt(v)) == v for every v with bufIsSInt(v)", (long) n == v);
	CHECK("rt: unsigned reading is v mod 2^32", u == ((ULong) v & 0xffffffffUL));
	CHECK("rt: reader consumed exactly what the writer produced", bufPosition(b) == end && end == pos + 4);
	VREACH();
}

void h_rt_ulong(void)
{
	RT_INPUTS; INPUT(ULong, v);
	ASSUME(v <= 0xffffffffUL);
	int w = bufWrULong(b, v);
	bufSetPosition(b, pos);
	ULong u = bufRdULong(b);
	CHECK("rt: bufRdULong(bufWrULong(v)) == v for every v < 2^32", u == v && w == 4);
	VREACH();
}

/* ---- the round trips as a LEMMA over the contracts' spec functions -----------------------------------
 * writer POST: bytes [pos,pos+k) == ENC_k(v), pos advanced by k;  bufSetPosition POST: pos restored,
 * nothing else touched;  reader POST: result == DEC_k(bytes [pos,pos+k)), pos advanced by k.
 * Hence get(put(v)) == DEC_k(ENC_k(v)); what is left to show is that DEC_k o ENC_k is the identity
 * on the stated domain -- for every value, no buffer involved. */
void h_lemma_enc_dec(void)
{
	INPUT(ULong, v);
	UByte s[4];
	s[0] = ENC_LE(v, 0); s[1] = ENC_LE(v, 1); s[2] = ENC_LE(v, 2); s[3] = ENC_LE(v, 3);
	CHECK("lemma: DEC_1(ENC_1(v)) == v for v < 2^8", v <= 0xffUL ? (ULong) s[0] == v : 1);
	CHECK("lemma: DEC_2(ENC_2(v)) == v for v < 2^16", v <= 0xffffUL ? DEC_LE2(s) == v : 1);
	CHECK("lemma: DEC_4(ENC_4(v)) == v mod 2^32", DEC_LE4(s) == (v & 0xffffffffUL));
#ifndef CANARY_lemma
	CHECK("lemma: (int) DEC_4(ENC_4(v)) == v on the bufIsSInt domain",
	      ((long) v >= -2147483648L && (long) v <= 2147483647L) ? (long)(int) DEC_LE4(s) == (long) v : 1);
#else   /* canary: claims it for the full 64-bit range */
	CHECK("lemma canary", (long)(int) DEC_LE4(s) == (long) v);
#endif
	VREACH();
}

/* ---- character runs (bounded length) ------------------------------------------------------------ */
#ifndef V_NCH
# define V_NCH 16
#endif
void h_bufWrChars(void)
{
	INPUT(Length, argc); INPUT(Length, pos); V_INPUT_ARR(UByte, data, BUFCAP); INPUT(Length, gi); INPUT(Length, gk);
	V_INPUT_ARR(char, s, V_NCH + 1); INPUT(int, cc);
	ASSUME(argc <= V_WR_ARGC_MAX && argc >= 2 && pos <= argc && gi < argc);
	ASSUME(cc >= 0 && cc <= V_NCH);
	Buffer b = v_mk_buffer(argc, pos, data); UByte *argv0 = b->argv;
	g_ix = gi; g_k = gk;
	UByte oldg = argv0[gi];
	int r = bufWrChars(b, cc, s);
	CHECK("bufWrChars: view extended by exactly the cc characters of s, old view kept", POST_bufAddn(b, s, (Length) cc, pos, oldg) && r == cc);
	VREACH();
}

void h_rt_chars(void)
{
	INPUT(Length, argc); INPUT(Length, pos); V_INPUT_ARR(UByte, data, BUFCAP); INPUT(Length, gk);
	V_INPUT_ARR(char, s, V_NCH + 1); INPUT(int, cc);
	ASSUME(argc <= V_WR_ARGC_MAX && argc >= 2 && pos <= argc);
	ASSUME(cc >= 0 && cc <= V_NCH && gk < (Length) cc);
	Buffer b = v_mk_buffer(argc, pos, data);
	/* domain: what foamToBuffer writes -- slen = strlen(s) characters, none of them NUL */
	Length i; for (i = 0; i < V_NCH; i++) if (i < (Length) cc) ASSUME(s[i] != 0);
	bufWrChars(b, cc, s);
	Length end = bufPosition(b);
	bufSetPosition(b, pos);
	String t = bufRdChars(b, cc);
#ifndef CANARY_rtchars
	CHECK("rt: bufRdChars(bufWrChars(s, cc)) has the same cc characters", t[gk] == s[gk]);
#else
	CHECK("rt canary", gk + 1 < (Length) cc ? t[gk] == s[gk + 1] : 1);
#endif
	CHECK("rt: result is NUL-terminated at cc", t[cc] == 0);
	CHECK("rt: reader consumed exactly what the writer produced", bufPosition(b) == end && end == pos + (Length) cc);
	VREACH();
}

#ifdef NATIVE_REPLAY
V_NATIVE_MAIN(ENTRY)
#endif
