"""C05 jobs: saved intermediate forms lose nothing -- the encoder/decoder pairs the saved forms are made of.
buffer.c writers and put/get pairs; foam.c foamSIntReduce, FOAM_PUT_INT/FOAM_GET_INT, one-node foamToBuffer/foamFrBuffer."""

ASSUMPTIONS = [
    "portable integer format: least significant byte first, 1/2/4 bytes (cport.h ':: Integer byte-ordering'); the end-to-end round-trip jobs do not depend on this reading",
    "writers are only ever applied to buffers made by bufNew (argc >= 64) or grown from them: precondition argc >= 2 (bufAdd1's growth step argc/2 must be > 0)",
    "allocator stub: stoAlloc/stoResize return fresh non-NULL memory of exactly the requested size, contents preserved by stoResize; stoSize = that size",
    "writer obligations are harness-level CHECKs of the POST_ macro texts of contracts/c_buffer.h, not dfcc-enforced: dfcc instrumentation of the realloc path exceeds 8 GB (probed); the frame is stated in the POST_ itself with a ghost index",
]

BUF_IN = ["argc", "pos", "data"]
WR_BOUND = "argv object <= 64 bytes before the write (pos, argc, contents, value symbolic; growth by realloc included)"


def jobs(tier):
    js = []

    def J(name, src, entry, fns, inputs, cls="P", kind="obligation", timeout=120, **kw):
        d = {"name": name, "src": src, "entry": entry, "functions": fns, "inputs": inputs,
             "native": True, "cls": cls, "timeout": timeout, "kind": kind}
        d.update(kw)
        js.append(d)

    # ---- buffer.c writers: view extended by exactly ENC_k(v), old view kept, no-growth frame -------
    WR = [("bufAdd1", ["c"]), ("bufPutByte", ["v"]), ("bufPutHInt", ["v"]), ("bufPutSInt", ["v"]),
          ("bufWrUByte", ["v"]), ("bufWrUShort", ["v"]), ("bufWrULong", ["v"])]
    for fn, extra in WR:
        J("buffer.wr." + fn, "buffer_wr_h.c", "h_" + fn, [fn, "bufAdd1", "bufGrow"], BUF_IN + ["gi"] + extra,
          cls="B", bound=WR_BOUND)
    for fn in ("bufPutByte", "bufPutHInt", "bufPutSInt"):
        J("canary.buffer.wr." + fn, "buffer_wr_h.c", "h_" + fn, [fn], BUF_IN, kind="canary", defs=["-DCANARY_" + fn])
    J("buffer.bufIsSInt", "buffer_wr_h.c", "h_bufIsSInt", ["bufIsSInt", "longIsInt32"], ["v"],
      enforce=["bufIsSInt/c_bufIsSInt"])
    # ---- put/get pairs on the real bodies, every value of the stated domain ---------------------------
    RT = [("byte", ["bufPutByte", "bufGetByte"]), ("hint", ["bufPutHInt", "bufGetHInt"]),
          ("sint", ["bufPutSInt", "bufGetSInt", "bufIsSInt"]), ("ulong", ["bufWrULong", "bufRdULong"])]
    for nm, fns in RT:
        J("buffer.roundtrip." + nm, "buffer_wr_h.c", "h_rt_" + nm, fns, BUF_IN + ["v"], cls="B", bound=WR_BOUND)
    J("canary.buffer.roundtrip.byte", "buffer_wr_h.c", "h_rt_byte", ["bufPutByte", "bufGetByte"], BUF_IN + ["v"],
      kind="canary", defs=["-DCANARY_rt"])
    # ---- lemma over the contracts' spec functions: DEC_k o ENC_k = id on the stated domain, all 2^64 values ------
    J("buffer.lemma.enc_dec_inverse", "buffer_wr_h.c", "h_lemma_enc_dec", [], ["v"])
    J("canary.buffer.lemma.enc_dec_inverse", "buffer_wr_h.c", "h_lemma_enc_dec", [], ["v"], kind="canary", defs=["-DCANARY_lemma"])
    # ---- character runs ---------------------------------------------------------------------------------
    LIBLOOPS = ["--unwindset", "strncpy.0:20,strlen.0:20", "--unwinding-assertions"]
    J("buffer.wr.bufWrChars", "buffer_wr_h.c", "h_bufWrChars", ["bufWrChars", "bufPutChars", "bufAddn", "bufNeed", "bufSkip"],
      BUF_IN + ["gi", "gk", "s", "cc"], cls="B", bound=WR_BOUND + ", cc<=16")
    J("buffer.roundtrip.chars", "buffer_wr_h.c", "h_rt_chars", ["bufWrChars", "bufRdChars", "bufGetChars", "bufGetn", "strAlloc"],
      BUF_IN + ["gk", "s", "cc"], cls="B", bound=WR_BOUND + ", cc<=16", cbmc=LIBLOOPS)
    J("canary.buffer.roundtrip.chars", "buffer_wr_h.c", "h_rt_chars", ["bufWrChars", "bufRdChars"], BUF_IN + ["gk", "s", "cc"],
      kind="canary", defs=["-DCANARY_rtchars"], cbmc=LIBLOOPS)

    # ---- foam.c: the portable re-expression of wide machine integers ------------------------------------------------
    OB = ["--object-bits", "12"]
    SR_UNW = OB + ["--unwindset", "foamSIntReduce.0:2,foamSIntReduce.1:4,foamSIntReduce.2:4,foamSIntReduce.3:3", "--unwinding-assertions"]
    # functional checks only: foamNew(FOAM_BCall, 3, FOAM_BVal_SIntShiftUp, ...) passes an int through "..." and reads it
    # with va_arg(argp, Foam) -- a pointer-check failure in the REAL foamNew (reported separately, not a C05 obligation);
    # the evaluator reads the builtin tag back as an int.
    SR_CHECKS = ["--no-standard-checks", "--no-malloc-may-fail", "--div-by-zero-check"]
    SR_FNS = ["foamSIntReduce", "foamNew", "foamNewEmpty", "foamNewAlloc", "longIsInt32"]
    SR_ASS = ["foamInit() already ran (foamIsInit forced): it only interns tag names and registers formatters",
              "memory safety of foamNew's varargs is NOT claimed in this job (functional checks only)"]
    if True:
        # loops bounded by the constant hunks = 3: complete for all 2^64 values.  Nodes are allocated at exactly the size
        # foamNewAlloc asks for (-DV_EXACT_FOAM_NODES): with whole-union nodes symbolic execution of the stores took ~5 min
        J("foam.foamSIntReduce.all_2^64_values", "foam_h.c", "h_foamSIntReduce", SR_FNS, ["v"], cbmc=SR_UNW, checks=SR_CHECKS,
          timeout=1800, assumed=SR_ASS, defs=["-DV_EXACT_FOAM_NODES"])
        J("canary.foam.foamSIntReduce", "foam_h.c", "h_foamSIntReduce", SR_FNS, ["v"], kind="canary", defs=["-DCANARY_reduce", "-DV_EXACT_FOAM_NODES"],
          cbmc=SR_UNW, checks=SR_CHECKS, timeout=1800)
    # ---- foam.c: the format the writer chooses for a node must hold every integer field of that node ------------------
    for tg in ("Loc", "Par", "Lex", "Glo", "Const", "RElt", "EElt", "IRElt", "TRElt", "RRElt", "Env", "Label"):
        J("foam.foamTagFormat." + tg, "foam_h.c", "h_foamTagFormat", ["foamTagFormat"], ["f0", "f1", "f2", "f3", "gi"],
          defs=["-DTAGFMT_TAG=FOAM_" + tg, "-DV_EXACT_FOAM_NODES"], cbmc=OB, checks=SR_CHECKS)
    J("canary.foam.foamTagFormat", "foam_h.c", "h_foamTagFormat", ["foamTagFormat"], ["f0", "f1", "f2", "f3", "gi"], kind="canary",
      defs=["-DTAGFMT_TAG=FOAM_EElt", "-DV_EXACT_FOAM_NODES", "-DCANARY_tagfmt"], cbmc=OB, checks=SR_CHECKS)
    # ---- foam.c: integer formats and the tag byte (loop-free, full domains) ---------------------------------------------
    J("foam.FOAM_PUT_INT_GET_INT.every_format", "foam_h.c", "h_foam_put_get_int", ["bufPutSInt", "bufPutByte", "bufGetSInt", "bufGetByte"],
      BUF_IN + ["fmt", "v"], cls="B", bound=WR_BOUND, cbmc=OB)
    J("canary.foam.FOAM_PUT_INT_GET_INT", "foam_h.c", "h_foam_put_get_int", [], BUF_IN + ["fmt", "v"], kind="canary",
      defs=["-DCANARY_putget"], cbmc=OB)
    J("foam.FOAM_FORMAT_FOR", "foam_h.c", "h_foam_format_for", [], ["n"], cbmc=OB)
    J("foam.tag_byte.put_get_remove_and_range", "foam_h.c", "h_foam_tag_byte", ["foamTagLimit"], ["tag", "fmt", "byte"], cbmc=OB)
    # ---- foam.c: one node through the real foamToBuffer / foamFrBuffer ---------------------------------------------------
    RT_FNS = ["foamToBuffer", "foamFrBuffer", "foamTagFormat", "foamSIntReduce", "foamNewEmpty", "foamNewAlloc", "bufNew"]
    NODE = [("Bool", "((v)==0||(v)==1)", "v in {0,1}"),
            ("Char.signed_range", "((v)>=-128&&(v)<=127)", "v in -128..127"),
            ("Char.128_255", "((v)>=128&&(v)<=255)", "v in 128..255"),
            ("Byte.signed_range", "((v)>=-128&&(v)<=127)", "v in -128..127"),
            ("Byte.128_255", "((v)>=128&&(v)<=255)", "v in 128..255"),
            ("HInt", "((v)>=0&&(v)<=65535)", "v in 0..65535"),
            ("SInt", "SPEC_FITS_SINT4(v)", "v in int32 (wider values: foamSIntReduce)"),
            ("Word", "SPEC_FITS_SINT4(v)", "v in int32")]
    for nm, dom, txt in NODE:
        tag = "FOAM_" + nm.split(".")[0]
        if nm == "SInt":
            # not a job: foamToBuffer sends SInt nodes through foamSIntReduce first, and the combined symex aborts at 8 GB after
            # 29 min (probed).  The SInt node is covered by composition: foamSIntReduce.all_2^64_values (thorough) says a fitting
            # value is returned as the same node, and the 'w' slot codec is the one exercised by one_node.Word.
            continue
        J("foam.roundtrip.one_node." + nm, "foam_h.c", "h_rt_node", RT_FNS, ["v"], cls="B", bound="one node, " + txt,
          defs=["-DV_TAG=" + tag, "-DV_DOM(v)=" + dom], cbmc=OB, timeout=600, assumed=SR_ASS[:1])
    J("canary.foam.roundtrip.one_node.HInt", "foam_h.c", "h_rt_node", RT_FNS, ["v"], kind="canary",
      defs=["-DV_TAG=FOAM_HInt", "-DV_DOM(v)=((v)>=0&&(v)<=65535)", "-DCANARY_rtnode"], cbmc=OB, timeout=600)
    # ---- archives: an indirect ("/<offset>") member name is the name stored at that decimal offset of the name table.
    # Harness shared with C17 (harness/C17/archive_h.c: real archive.c, buffer.c, strops.c; file model; sscanf model that
    # takes width and radix from the format string)
    AR = dict(cls="B", native=True, timeout=1800,
              cbmc=["--unwind", "64", "--unwindset", "arRdItemArch:2", "--unwinding-assertions"],
              assumed=["sscanf and strtol replaced by harness models (libc); fnameUnparse stubbed; file model: fseek/ftell/fread over an in-memory image",
                       "header numeric fields are the text \"0\"; the name table is 12 arbitrary non-NUL bytes"])
    J("archive.indirect_member_name", "../C17/archive_h.c", "h_arIndirectName", ["arRdItemArch", "arRdItemArch0", "arReadText", "arReadNumber", "arSeek"],
      ["tbl", "off", "k"], bound="name table of 12 bytes (every byte value but NUL), every offset inside it", defs=["-DV_FILE_MAX=60", "-DV_NAMES_MAX=12"], **AR)
    return js
