"""C05 jobs: saved intermediate forms lose nothing -- the encoder/decoder pairs the saved forms are made of.
buffer.c writers and put/get pairs; foam.c foamSIntReduce, FOAM_PUT_INT/FOAM_GET_INT, one-node foamToBuffer/foamFrBuffer."""

ASSUMPTIONS = [
    "portable integer format: least significant byte first, 1/2/4 bytes (cport.h ':: Integer byte-ordering'); the end-to-end round-trip jobs do not depend on this reading",
    "writers are only ever applied to buffers made by bufNew (argc >= 64) or grown from them: precondition argc >= 2 (bufAdd1's growth step argc/2 must be > 0)",
    "allocator stub: stoAlloc/stoResize return fresh non-NULL memory of exactly the requested size, contents preserved by stoResize; stoSize = that size",
    "writer obligations are harness-level CHECKs of the POST_ macro texts of contracts/c_buffer.h, not dfcc-enforced: dfcc instrumentation of the realloc path exceeds 8 GB (probed); the frame is stated in the POST_ itself with a ghost index",
]

BUF_IN = ["argc", "pos", "data"]
WR_BOUND = "argv object <= 64 bytes before the write (pos, argc, contents, value symbolic; growth by realloc included)"


def jobs(tier):
    js = []

    def J(name, src, entry, fns, inputs, cls="P", kind="obligation", timeout=120, **kw):
        d = {"name": name, "src": src, "entry": entry, "functions": fns, "inputs": inputs,
             "native": True, "cls": cls, "timeout": timeout, "kind": kind}
        d.update(kw)
        js.append(d)

    # ---- buffer.c writers: view extended by exactly ENC_k(v), old view kept, no-growth frame -------
    WR = [("bufAdd1", ["c"]), ("bufPutByte", ["v"]), ("bufPutHInt", ["v"]), ("bufPutSInt", ["v"]),
          ("bufWrUByte", ["v"]), ("bufWrUShort", ["v"]), ("bufWrULong", ["v"])]
    for fn, extra in WR:
        J("buffer.wr." + fn, "buffer_wr_h.c", "h_" + fn, [fn, "bufAdd1", "bufGrow"], BUF_IN + ["gi"] + extra,
          cls="B", bound=WR_BOUND)
    for fn in ("bufPutByte", "bufPutHInt", "bufPutSInt"):
        J("canary.buffer.wr." + fn, "buffer_wr_h.c", "h_" + fn, [fn], BUF_IN, kind="canary", defs=["-DCANARY_" + fn])
    J("buffer.bufIsSInt", "buffer_wr_h.c", "h_bufIsSInt", ["bufIsSInt", "longIsInt32"], ["v"],
      enforce=["bufIsSInt/c_bufIsSInt"])
    # ---- put/get pairs on the real bodies, every value of the stated domain ---------------------------
    RT = [("byte", ["bufPutByte", "bufGetByte"]), ("hint", ["bufPutHInt", "bufGetHInt"]),
          ("sint", ["bufPutSInt", "bufGetSInt", "bufIsSInt"]), ("ulong", ["bufWrULong", "bufRdULong"])]
    for nm, fns in RT:
        J("buffer.roundtrip." + nm, "buffer_wr_h.c", "h_rt_" + nm, fns, BUF_IN + ["v"], cls="B", bound=WR_BOUND)
    J("canary.buffer.roundtrip.byte", "buffer_wr_h.c", "h_rt_byte", ["bufPutByte", "bufGetByte"], BUF_IN + ["v"],
      kind="canary", defs=["-DCANARY_rt"])
    # ---- lemma over the contracts' spec functions: DEC_k o ENC_k = id on the stated domain, all 2^64 values ------
    J("buffer.lemma.enc_dec_inverse", "buffer_wr_h.c", "h_lemma_enc_dec", [], ["v"])
    J("canary.buffer.lemma.enc_dec_inverse", "buffer_wr_h.c", "h_lemma_enc_dec", [], ["v"], kind="canary", defs=["-DCANARY_lemma"])
    # ---- character runs ---------------------------------------------------------------------------------
    LIBLOOPS = ["--unwindset", "strncpy.0:20,strlen.0:20", "--unwinding-assertions"]
    J("buffer.wr.bufWrChars", "buffer_wr_h.c", "h_bufWrChars", ["bufWrChars", "bufPutChars", "bufAddn", "bufNeed", "bufSkip"],
      BUF_IN + ["gi", "gk", "s", "cc"], cls="B", bound=WR_BOUND + ", cc<=16")
    J("buffer.roundtrip.chars", "buffer_wr_h.c", "h_rt_chars", ["bufWrChars", "bufRdChars", "bufGetChars", "bufGetn", "strAlloc"],
      BUF_IN + ["gk", "s", "cc"], cls="B", bound=WR_BOUND + ", cc<=16", cbmc=LIBLOOPS)
    J("canary.buffer.roundtrip.chars", "buffer_wr_h.c", "h_rt_chars", ["bufWrChars", "bufRdChars"], BUF_IN + ["gk", "s", "cc"],
      kind="canary", defs=["-DCANARY_rtchars"], cbmc=LIBLOOPS)
    return js
