/* C11 harnesses for dword.c (double-word primitives on full machine words, used by bintModi through
 * xxModDouble).  The real dword.c is included verbatim.  Word radix W = 2^64; values in unsigned __int128. */
#include "dword.c"
#include "vharness.h"
#define V_STUB_BUG_UNREACHABLE
#include "stubs.h"

typedef unsigned __int128 u128;
#define W2(h, l)  ((((u128)(h)) << 64) | (u128)(l))

void h_xxTestGtDouble(void)
{
	INPUT(ULong, ah); INPUT(ULong, al); INPUT(ULong, bh); INPUT(ULong, bl);
	int g;
	xxTestGtDouble(&g, ah, al, bh, bl);
#ifndef CANARY_xxTestGtDouble
	CHECK("xxTestGtDouble: (ah,al) > (bh,bl)", (g != 0) == (W2(ah, al) > W2(bh, bl)));
#else
	CHECK("xxTestGtDouble canary: >=", (g != 0) == (W2(ah, al) >= W2(bh, bl)));
#endif
	VREACH();
}
void h_xxPlusStep(void)
{
	INPUT(ULong, a); INPUT(ULong, b); INPUT(ULong, ki);
	ULong ko, r;
	ASSUME(ki <= 1);
	xxPlusStep(&ko, &r, a, b, ki);
#ifndef CANARY_xxPlusStep
	CHECK("xxPlusStep: ko*W + r == a + b + ki", W2(ko, r) == (u128) a + (u128) b + (u128) ki);
#else
	CHECK("xxPlusStep canary: carry-in dropped", W2(ko, r) == (u128) a + (u128) b);
#endif
	CHECK("xxPlusStep: ko is 0 or 1", ko <= 1);
	VREACH();
}
/* 64x64 -> 128 product through four 32x32 partial products: a genuine multiplier equivalence
 * (thorough tier; expected to stay undecided) */
void h_xxTimesDouble(void)
{
	INPUT(ULong, a); INPUT(ULong, b);
	ULong h, l;
	xxTimesDouble(&h, &l, a, b);
	CHECK("xxTimesDouble: h*W + l == a*b", W2(h, l) == (u128) a * (u128) b);
	VREACH();
}
/* the low word needs only the 64-bit product: decided quickly */
void h_xxTimesDouble_low(void)
{
	INPUT(ULong, a); INPUT(ULong, b);
	ULong h, l;
	xxTimesDouble(&h, &l, a, b);
	CHECK("xxTimesDouble: low word == a*b mod W", l == a * b);
	VREACH();
}
/* 32-bit operands: the product fits one word, high word must be 0 */
void h_xxTimesDouble_half(void)
{
	INPUT(ULong, a); INPUT(ULong, b);
	ULong h, l;
	ASSUME(a <= 0xffffffffUL && b <= 0xffffffffUL);
	xxTimesDouble(&h, &l, a, b);
	CHECK("xxTimesDouble on half words: h == 0 and l == a*b", h == 0 && l == a * b);
	VREACH();
}
void h_xxModDouble_small(void)       /* divisor below 2^32: four DivideDouble steps on half words */
{
	INPUT(ULong, nh); INPUT(ULong, nl); INPUT(ULong, d);
	ASSUME(d >= 1 && d < 0x100000000UL);
	ULong r = xxModDouble(nh, nl, d);
	CHECK("xxModDouble (d < 2^32): r < d", r < d || d == 1);
	CHECK("xxModDouble (d < 2^32): r == (nh*W + nl) mod d", (u128) r == W2(nh, nl) % (u128) d);
	VREACH();
}

#ifdef NATIVE_REPLAY
V_NATIVE_MAIN(ENTRY)
#endif
