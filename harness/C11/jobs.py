"""C11 jobs: big-integer arithmetic is exact (bigint.c, dword.c, foam_i.c)."""
import os

ASSUMPTIONS = [
    "abstract value V(b) and invariants WF/CANON are restated in spec/bint_spec.h from the property text and bigint.c's header comment (tag bit 0, value = word>>1; sign-magnitude digits radix 2^32); job bint.constants checks the code's own radix and immediate range against them",
    "allocator stub (harness/C11/bint_common.c): stoAlloc returns fresh non-NULL memory of at least the requested size (= property C10, assumed); stoFree is a no-op",
    "objects of capacity <= NARY digits are whole `struct bint`s with sentinel-filled slack: a store beyond placea is detected through the sentinel (for every sentinel value), a LOAD beyond placea but inside the struct is not detected as a memory error (it would make the value postcondition fail if the value matters)",
    "TimesStep/TimesDouble identities are stated in 64-bit unsigned arithmetic; that (2^32-1)^2 + 2(2^32-1) = 2^64-1 does not wrap is a pencil-and-paper fact, not a solver result",
    "right shifts and bit tests are specified on the magnitude (sign-magnitude, quotient by 2^n truncated toward zero), as the property's rule for quotients; bintBit on a negative number tests |b| (the code's own '!! This should handle negative numbers' is not resolved by the property text)",
    "bintPlus/bintMinus: the real body of each, one job per operand shape x sign case (16 per function); the calls they make to themselves and each other are bound (definition renamed on every run) to a model of the contract being checked, whose precondition - operand form and BOTH OPERANDS NON-NEGATIVE, the decreases clause - is an obligation at every re-entry; an operand in the immediate representation is a tagged integer cast to a pointer, which the SAT flattening cannot handle (> 43 GB in post-processing): those shapes are discharged by z3; all of these whole-body jobs are in the THOROUGH tier only (3-20 min each, large spread between runs)",
    "class B jobs: every operand has at most 3 digits (96 bits), all digit values, signs, lengths and capacities symbolic; nothing is claimed beyond that size",
    "UNDECIDED, not claimed: the arithmetic identities of iintTimes, iintTimesS, iintTimesPlusS, iintDivide, iintDivideS, bintTimes (general path), bintDivide (a = q*b + r, truncation, sign of remainder), bintMod/bintModi, xxTimesDouble/xxDivideDouble/xxModDouble, fiBIntGcd, fiBIntSIPower/BIPower/PowerMod, bintToString/bintIntoString, bintFrString/bintScanFrString/bintRadixScanFrString: 64-bit multiplier/divider equivalences are beyond the SAT back end (probed: 2x2-digit product, DivideDouble re-multiplied, 120-900 s without result)",
    "OBSERVED, NOT DECIDED as a memory-safety question: iintShift evaluates bp[-1] == Placev(b)[-1] (bigint.c:2269, `x0 |= h ? bp[i] >> h : 0` with i == -1) on a left shift of a one-digit operand - an out-of-bounds read of the digit array, undefined behaviour in ISO C; on LE LP64 it loads the zero upper half of placec, so the VALUE is exact: jobs *.left_shift_of_one_digit.platform_layout prove exactness under that layout assumption, *.except_left_shift_of_one_digit prove everything else without it",
    "signed overflow is not checked (framework default): xintStoreI/xintCopyInI/intLength/intBit negate LONG_MIN, which wraps to itself under CBMC and gcc and gives the exact result, but is undefined behaviour in ISO C",
]

# objects are >= sizeof(struct bint): the default checks (with --pointer-check) have no struct-hack false alarm
STD = ["--no-standard-checks", "--no-malloc-may-fail", "--bounds-check", "--pointer-check", "--div-by-zero-check"]
# "any length" harnesses allocate fullsizeof(struct bint, placea, digit) bytes exactly; for placea < NARY that is
# less than sizeof(struct bint) and --pointer-check reports a FALSE "outside object bounds in b->placev" (it
# checks the whole declared member) while --bounds-check is EXACT ("dynamic object upper bound" compares the
# byte offset with the malloc'ed size).  Also used for the immediate-operand shapes (nothing to point to; the
# tagged integer-valued pointers only make --pointer-check generate hundreds of vacuous properties).
NOPTR = ["--no-standard-checks", "--no-malloc-may-fail", "--bounds-check", "--div-by-zero-check"]
SRC = "bigint_h.c"
B3 = "operands <= 3 digits (96 bits), capacities <= 4 digits"


def UW(n, *sets):
    u = ["--unwind", str(n)]
    if sets:
        u += ["--unwindset", ",".join(sets)]
    return u + ["--unwinding-assertions"]


def jobs(tier):
    js = []
    # jobs known to stay undecided (timeouts on SAT and z3) are kept for the record and scheduled only on request
    PROBE = os.environ.get("VERIF_PROBE_UNDECIDED") == "1"

    def J(name, entry, fns, inputs, cls="P", enforce=(), defs=(), kind="obligation", unwind=None, timeout=300,
          checks=STD, **kw):
        d = {"name": name, "src": SRC, "entry": entry, "functions": list(fns), "inputs": ["sent"] + list(inputs),
             "defs": list(defs), "checks": checks, "native": True, "cls": cls, "timeout": timeout, "kind": kind,
             "cbmc": list(unwind or [])}
        if enforce:
            d["enforce"] = list(enforce)
        d.update(kw)
        js.append(d)
        return d

    def E(f):
        return ["%s/c_%s" % (f, f)]

    def bk(x):      # inputs of IN_BINT_K / IN_BINT_ANYLEN_K
        return ["%s_%s" % (x, f) for f in ("val", "neg", "pa", "pc", "d0", "d1", "d2", "d3", "top")]

    def st(x):
        return ["%s_%s" % (x, f) for f in ("neg", "pa", "pc", "d0", "d1", "d2", "d3")]

    # ------------------------------------------------------------------------------------------------
    # class P: machine-integer helpers, full 64-bit domain (uintLength's loop is bounded by the word size:
    # 64 iterations, unwinding assertions pass => complete)
    J("mach.uintLength", "h_uintLength", ["uintLength"], ["u"], enforce=E("uintLength"), unwind=UW(66))
    J("mach.intLength", "h_intLength", ["intLength", "uintLength"], ["n"], enforce=E("intLength"), unwind=UW(66))
    J("mach.uintBit", "h_uintBit", ["uintBit"], ["u", "ix"], enforce=E("uintBit"))
    J("mach.intBit", "h_intBit", ["intBit", "uintBit"], ["n", "ix"], enforce=E("intBit"))
    J("canary.mach.uintLength", "h_uintLength", ["uintLength"], ["u"], enforce=E("uintLength"),
      unwind=UW(66), defs=["-DCANARY_uintLength"], kind="canary")
    J("canary.mach.uintBit", "h_uintBit", ["uintBit"], ["u", "ix"], enforce=E("uintBit"),
      defs=["-DCANARY_uintBit"], kind="canary")

    # class P: conversion from machine integers, immediates (loops bounded by 64/32 = 2 digits)
    ALLOC = ["bintAllocPlaces"]
    J("bint.constants", "h_constants", ["bint0", "bint1"], [])
    J("bint.bintNew", "h_bintNew", ["bintNew", "xintStoreI", "xintCopyInI"] + ALLOC, ["n"], enforce=E("bintNew"), unwind=UW(5))
    J("bint.xintStoreI", "h_xintStoreI", ["xintStoreI", "xintCopyInI"] + ALLOC, ["n"], enforce=E("xintStoreI"), unwind=UW(5))
    J("bint.xintCopyInI", "h_xintCopyInI", ["xintCopyInI"] + ALLOC, ["n"] + st("b"), enforce=E("xintCopyInI"), unwind=UW(6))
    J("bint.bintIsSmall", "h_bintIsSmall", ["bintIsSmall"], ["w"], enforce=E("bintIsSmall"))
    J("bint.bintSmall", "h_bintSmall", ["bintSmall"], ["w"], enforce=E("bintSmall"))
    J("bint.roundtrip_machine_integer", "h_roundtrip_small",
      ["bintNew", "bintIsSmall", "bintSmall", "bintToULong", "bintIsNeg", "bintIsZero", "bintIsPos", "xintStoreI", "xintCopyInI"],
      ["n"], unwind=UW(5))
    # any number of digits (placea <= 2^16, exact-size objects)
    for k in ("imm", "st"):
        J("bint.xintImmedIfCan_any_length." + k, "h_xintImmedIfCan_" + k, ["xintImmedIfCan"], bk("b"),
          enforce=E("xintImmedIfCan"), unwind=UW(6), checks=NOPTR)
        for f in ("bintIsNeg", "bintIsZero", "bintIsPos"):
            J("bint.%s_any_length.%s" % (f, k), "h_%s_%s" % (f, k), [f], bk("b"), enforce=E(f), unwind=UW(6), checks=NOPTR)
    for f, e, ins, uw, ck in (("bintNew", "h_bintNew", ["n"], 5, STD), ("xintStoreI", "h_xintStoreI", ["n"], 5, STD),
                              ("xintCopyInI", "h_xintCopyInI", ["n"] + st("b"), 6, STD),
                              ("xintImmedIfCan", "h_xintImmedIfCan_st", bk("b"), 6, NOPTR),
                              ("bintSmall", "h_bintSmall", ["w"], 2, STD),
                              ("bintIsNeg", "h_bintIsNeg_imm", bk("b"), 6, NOPTR)):
        J("canary.bint." + f, e, [f], ins, enforce=E(f), unwind=UW(uw), defs=["-DCANARY_" + f], kind="canary", checks=ck)

    # class P: the double-word step macros through one-line wrappers, all digit values
    for m, ins in (("PlusStep", ["a", "b", "kin"]), ("MinusStep", ["a", "b", "kp1in"]),
                   ("TimesStep", ["a", "b", "c", "kin"]), ("TimesDouble", ["a", "b"]),
                   ("DivideDouble_remainder_below_divisor", ["nh", "nl", "d"]), ("TestGTDouble", ["h1", "l1", "h2", "l2"])):
        J("macro." + m, "h_" + m.split("_")[0], [m.split("_")[0] + " (macro)"], ins, timeout=120)
    for m, ins in (("PlusStep", ["a", "b", "kin"]), ("TimesStep", ["a", "b", "c", "kin"]),
                   ("TestGTDouble", ["h1", "l1", "h2", "l2"])):
        J("canary.macro." + m, "h_" + m, [m + " (macro)"], ins, defs=["-DCANARY_" + m], kind="canary")
    if PROBE:
        # 64-bit divider/multiplier equivalences: stay undecided on SAT and z3 (1200 s); scheduled only with VERIF_PROBE_UNDECIDED=1
        J("macro.DivideDouble_remultiplied", "h_DivideDouble", ["DivideDouble (macro)"], ["nh", "nl", "d"],
          defs=["-DDIVIDE_REMULTIPLY"], timeout=1200, unwind=["--z3", "--slice-formula"])
    if tier == "thorough":
        J("macro.DivideDouble_quotient_fits_digit", "h_DivideDouble_fits", ["DivideDouble (macro)"], ["nh", "nl", "d"], timeout=1200)

    # ------------------------------------------------------------------------------------------------
    # class B: digit-vector routines, every operand <= 3 digits, one job per aliasing mode
    UB = ["--slice-formula"] + UW(6, "uintLength.0:66")    # slicing: only the cone of influence of the obligations is encoded
    IINT = (("iintAbs", st("a") + st("r0"), ("r", "ra")), ("iintNegate", st("a") + st("r0"), ("r", "ra")),
            ("iintPlus", st("a") + st("b") + st("r0"), ("r", "ra", "rb")),
            ("iintMinus", st("a") + st("b") + st("r0"), ("r", "ra", "rb")),
            ("iintShift", st("b") + st("r0") + ["n"], ()))
    ALIAS = {"r": "result_distinct", "ra": "result_aliases_first_operand", "rb": "result_aliases_second_operand"}
    for f, ins, modes in IINT:
        for m in modes:
            J("iint.%s.%s" % (f, ALIAS[m]), "h_%s_%s" % (f, m), [f], ins, cls="B", bound=B3, enforce=E(f), unwind=UB, timeout=240)
        J("canary.iint." + f, "h_%s_r%s" % (f, "_excl" if f == "iintShift" else ""), [f], ins, cls="B", bound=B3, enforce=E(f), unwind=UB,
          defs=["-DCANARY_" + f], kind="canary", timeout=240)
    for m in ("r", "ra"):
        J("iint.iintShift.%s.except_left_shift_of_one_digit" % ALIAS[m], "h_iintShift_%s_excl" % m, ["iintShift"],
          st("b") + st("r0") + ["n"], cls="B", bound=B3 + "; excludes n > 0 with a one-digit operand (reads Placev(b)[-1])",
          enforce=E("iintShift"), unwind=UB, timeout=400)
        # the excluded class, operand laid out in a word buffer so that Placev(b)[-1] is the platform's actual word
        J("iint.iintShift.%s.left_shift_of_one_digit.platform_layout" % ALIAS[m], "h_iintShift_%s_1d" % m, ["iintShift"],
          ["b_neg", "b_pa", "b_d0"] + st("r0") + ["n"], cls="B",
          bound="one-digit operand, n > 0, result <= 4 digits; ASSUMES the LE LP64 layout of struct bint for the out-of-array read Placev(b)[-1]",
          unwind=UB, timeout=400, checks=NOPTR)

    # comparison, bit length, bit test: immediate operands = class P, a stored operand = class B
    KK = (("ii", "imm_imm"), ("is", "imm_stored"), ("si", "stored_imm"), ("ss", "stored_stored"))
    K1 = (("i", "imm"), ("s", "stored"))
    for f in ("bintEQ", "bintLT", "bintGT"):
        for k, kn in KK:
            J("bint.%s.%s" % (f, kn), "h_%s_%s" % (f, k), [f], bk("a")[:-1] + bk("b0")[:-1] + ["same"],
              cls="P" if k == "ii" else "B", bound=None if k == "ii" else B3, enforce=E(f), unwind=UB, timeout=400,
              checks=STD if k == "ss" else NOPTR)
    for f, fns, extra in (("bintLength", ["bintLength", "intLength", "uintLength"], []),
                          ("bintBit", ["bintBit", "intBit", "uintBit"], ["ix"])):
        for k, kn in K1:
            J("bint.%s.%s" % (f, kn), "h_%s_%s" % (f, k), fns, bk("b")[:-1] + extra,
              cls="P" if k == "i" else "B", bound=None if k == "i" else B3, enforce=E(f), unwind=UB, timeout=400,
              checks=NOPTR if k == "i" else STD)
    J("bint.bintToULong", "h_bintToULong", ["bintToULong"], bk("b")[:-1], cls="B", bound="2 digits (its only call site)", unwind=UB)
    for f, e, ins in (("bintEQ", "h_bintEQ_ss", bk("a")[:-1] + bk("b0")[:-1] + ["same"]),
                      ("bintLT", "h_bintLT_ss", bk("a")[:-1] + bk("b0")[:-1] + ["same"]),
                      ("bintLength", "h_bintLength_s", bk("b")[:-1]), ("bintBit", "h_bintBit_s", bk("b")[:-1] + ["ix"])):
        J("canary.bint." + f, e, [f], ins, cls="B", bound=B3, enforce=E(f), unwind=UB,
          defs=["-DCANARY_" + f], kind="canary", timeout=240)

    # negate, abs, copy (real bodies, everything inlined)
    for f in ("bintNegate", "bintAbs", "bintCopy"):
        for k, kn in K1:
            if f == "bintAbs" and k == "i" and tier != "thorough":
                continue
            J("bint.%s.%s" % (f, kn), "h_%s_%s" % (f, k), [f, "bintCopy", "bintNew"] + ALLOC, bk("a")[:-1],
              cls="P" if k == "i" else "B", bound=None if k == "i" else B3, unwind=UB, timeout=400,
              checks=NOPTR if k == "i" else STD)
    J("canary.bint.bintNegate", "h_bintNegate_s", ["bintNegate"], bk("a")[:-1], cls="B", bound=B3, unwind=UB,
      defs=["-DCANARY_bintNegate"], kind="canary", timeout=240)

    # sum and difference: real bodies inlined, one job per operand shape and sign case (see bigint_h.c);
    # recursion bounded per case, the recursion unwinding assertions prove the bound complete.
    INL = ["xintStore", "xintStoreI", "xintCopyInI", "bintIsNeg", "bintLength", "bintAlloc", "bintAllocPlaces",
           "xintImmedIfCan", "bintFree", "bintLT", "iintPlus", "iintMinus"]
    SGN = {0: "nonneg_nonneg", 1: "neg_nonneg", 2: "nonneg_neg", 3: "neg_neg"}
    ADDSUB = {"bigint.c": {"_rename_def": {"bintPlus": "bintPlus__real", "bintMinus": "bintMinus__real"}}}
    for f, me, other in (("bintPlus", "bintPlus", "bintMinus"), ("bintMinus", "bintMinus", "bintPlus")):
        for k, kn in KK:
            for sg in (0, 1, 2, 3):
                if tier != "thorough":
                    continue        # whole-body jobs: 3-20 min each and with a large spread between runs (one stored/stored
                                    # case took 156 s in one run and over 18 min in another): thorough tier only; the quick
                                    # tier has the digit-level iintPlus/iintMinus contracts and the representation switch
                J("bint.%s.%s.%s" % (f, kn, SGN[sg]), "h_%s_%s_sg%d" % (f, k, sg), [f] + INL,
                  bk("a")[:-1] + bk("b0")[:-1] + ["same", "m_pa"], cls="P" if k == "ii" else "B", bound=None if k == "ii" else B3,
                  unwind=["--slice-formula"] + UW(6, "uintLength.0:66") + ([] if k == "ss" else ["--z3"]),
                  defs=["-DC11_MODEL_ADDSUB"], splice=ADDSUB,
                  timeout=1200 if tier != "thorough" else 3000, mem_gb=12, checks=STD if k == "ss" else NOPTR,
                  assumed=["re-entries of bintPlus/bintMinus replaced by a model of the contract being checked (assume-guarantee; "
                           "the model's precondition incl. 'both operands non-negative' is an obligation at every re-entry, which closes the recursion)"])
        if tier != "thorough":
            continue
        # sign case a >= 0, b < 0: the bintPlus canary drops the sign of b, which only shows when b is negative
        J("canary.bint." + f, "h_%s_ss_sg2" % f, [f], bk("a")[:-1] + bk("b0")[:-1] + ["same", "m_pa"], cls="B", bound=B3,
          unwind=["--slice-formula"] + UW(6, "uintLength.0:66") + ["--stop-on-fail"], splice=ADDSUB,
          timeout=900, mem_gb=12, defs=["-DC11_MODEL_ADDSUB", "-DV_NO_VREACH", "-DCANARY_" + f], kind="canary")

    # products that have a cheap exact formulation
    if PROBE:       # undecided (SAT and z3, 1500 s)
        J("bint.bintTimes.half_range_immediates", "h_bintTimes_half", ["bintTimes"], ["x", "y"], unwind=UB + ["--z3"],
          replace=E("bintNew"), timeout=1500)
    for k, kn in K1:
        for u, un in (("0", "0"), ("1", "1"), ("m1", "-1")):
            if k == "i" and u != "0" and tier != "thorough":
                continue        # slow only because of the tagged-pointer modelling (150 s); thorough tier
            J("bint.bintTimes.by_%s.%s" % (un, kn), "h_bintTimes_unit_%s_%s" % (k, u), ["bintTimes", "bintCopy", "bintNegate", "bintNew"],
              ["swap"] + bk("b")[:-1], cls="P" if k == "i" else "B", bound=None if k == "i" else B3, unwind=UB, timeout=400,
              checks=NOPTR if k == "i" else STD)
    J("canary.bint.bintTimes", "h_bintTimes_unit_s_m1", ["bintTimes"], ["swap"] + bk("b")[:-1], cls="B", bound=B3,
      unwind=UB, defs=["-DCANARY_bintTimes"], kind="canary")

    # shifts (bintShift: 300 s on a loaded machine, thorough tier; the digit-level iintShift jobs are in the quick tier)
    # quick tier: an immediate operand whose shifted magnitude stays below 2^65 -- the fast path and the
    # immediate/stored boundary of the result (62/63/64 bits)
    for k, kn in (K1 if PROBE else [x for x in K1 if x[0] != "i"]):   # immediate operand with a symbolic count: > 5000 s (tagged-pointer modelling); replaced by the per-count jobs below
        J("bint.bintShift.%s.modulo_c_iintShift" % kn, "h_bintShift_" + k, ["bintShift", "bintLength", "xintStore", "bintAlloc", "xintImmedIfCan"],
          bk("b")[:-1] + ["n"], cls="B", unwind=UB, timeout=900 if tier != "thorough" else 5000, mem_gb=10,
          bound=B3 + ", result < 2^127; iintShift replaced by a model of its contract c_iintShift (enforced in iint.iintShift.*)",
          defs=["-DC11_MODEL_IINTSHIFT"], checks=NOPTR if k == "i" else STD,
          splice={"bigint.c": {"_rename_def": {"iintShift": "iintShift__real"}}},
          assumed=["c_iintShift as a model (its contract is enforced on the real iintShift in the iint.iintShift.* jobs)"])
    # immediate operand at the immediate/stored boundary of the RESULT (62..65 bits), one job per constant shift count:
    # the fast path's guard, the store of a 63/64-bit result and xintImmedIfCan's verdict
    for nn in ((1, 32, 61) if tier != "thorough" else range(1, 63)):
        J("bint.bintShift.imm.result_62_to_65_bits.n%d" % nn, "h_bintShift_i", ["bintShift", "bintLength", "xintStore", "bintAlloc", "xintImmedIfCan"],
          bk("b")[:-1], cls="P", unwind=UB, timeout=600, mem_gb=10,
          bound=None, defs=["-DC11_MODEL_IINTSHIFT", "-DBINTSHIFT_N=%d" % nn, "-DBINTSHIFT_RESULT_MINBITS=62", "-DBINTSHIFT_RESULT_BITS=65"],
          checks=NOPTR, splice={"bigint.c": {"_rename_def": {"iintShift": "iintShift__real"}}},
          assumed=["c_iintShift as a model (its contract is enforced on the real iintShift in the iint.iintShift.* jobs)"])
    if tier == "thorough":
        for k, kn in (K1 if PROBE else [x for x in K1 if x[0] != "i"]):   # immediate operand, symbolic count, real iintShift inlined: > 1500 s
            # immediate operand: xintStore gives a one-digit number, whose left shift reads Placev(b)[-1] (see iintShift);
            # allocated objects are word buffers there (-DC11_RAW_ALLOC) so that the read is the platform's actual word
            J("bint.bintShift." + kn, "h_bintShift_" + k, ["bintShift", "iintShift", "bintLength", "xintStore", "bintAlloc", "xintImmedIfCan"],
              bk("b")[:-1] + ["n"], cls="B", unwind=UB, timeout=1500, mem_gb=10,
              bound=B3 + ", result < 2^127" + ("; ASSUMES the LE LP64 layout of struct bint for the out-of-array read Placev(b)[-1]" if k == "i" else ""),
              defs=["-DC11_RAW_ALLOC"] if k == "i" else [], checks=NOPTR if k == "i" else STD)
        J("canary.bint.bintShift", "h_bintShift_s", ["bintShift"], bk("b")[:-1] + ["n"], cls="B", bound=B3, unwind=UB,
          defs=["-DCANARY_bintShift"], kind="canary", timeout=1500)
    # product: memory safety and result form only (the identity r == a*b is undecided); z3, 20 s
    J("iint.iintTimes.memory_safety_and_result_form", "h_iintTimes_wf", ["iintTimes"], st("a") + st("b") + st("r"), cls="B",
      bound="operands <= 2 digits; the identity r == a*b is NOT decided", unwind=UB + ["--z3"], timeout=600, mem_gb=10)
    # products against the schoolbook expansion (same 64-bit digit products as the code forms; z3 shares them)
    SB = "distributivity (the schoolbook sum of digit products IS the product) is pencil and paper, not a solver result"
    DCONST = [("ffffffff", "0xFFFFFFFFU"), ("1e9", "1000000000U"), ("10", "10U"), ("3", "3U"), ("80000001", "0x80000001U")]
    for tag, dv in (DCONST if tier == "thorough" else DCONST[:3]):
        J("iint.iintTimesS.schoolbook.d_%s" % tag, "h_iintTimesS_schoolbook", ["iintTimesS"], st("a") + st("r0") + ["alias", "c"], cls="B",
          bound="multiplicand <= 3 digits (every value), multiplier digit = %s" % dv, unwind=UB, timeout=600, mem_gb=10, assumed=[SB], defs=["-DSB_D=" + dv])
        J("iint.iintTimesPlusS.schoolbook.d_%s" % tag, "h_iintTimesPlusS_schoolbook", ["iintTimesPlusS"], st("a") + st("r0") + ["alias", "c"], cls="B",
          bound="multiplicand <= 3 digits (every value), multiplier digit = %s, any digit addend" % dv, unwind=UB, timeout=600, mem_gb=10, assumed=[SB], defs=["-DSB_D=" + dv])
    # second operand: ONE constant digit (two constant digits: no result in 600 s, even for 2^32; PROBE only)
    BCONST = [("0_ffffffff", "0xFFFFFFFFU", "0U")]
    if PROBE:       # (10^9 as the digit: no result in 1500 s)
        BCONST += [("0_3b9aca00", "1000000000U", "0U"), ("ffffffff_ffffffff", "0xFFFFFFFFU", "0xFFFFFFFFU"), ("1_0", "0U", "1U"), ("12345678_9abcdef1", "0x9ABCDEF1U", "0x12345678U")]
    for tag, b0, b1 in (BCONST if tier == "thorough" else BCONST[:1]):
        J("iint.iintTimes.schoolbook.b_%s" % tag, "h_iintTimes_schoolbook", ["iintTimes"], st("a") + st("b") + st("r"), cls="B",
          bound="first operand <= 2 digits (every value); second operand's digits are the constants %s, %s (its length 0..2 symbolic)" % (b1, b0),
          unwind=UB, timeout=600, mem_gb=10, assumed=[SB], defs=["-DSB_B0=" + b0, "-DSB_B1=" + b1])
    J("canary.iint.iintTimes", "h_iintTimes_schoolbook", ["iintTimes"], st("a") + st("b") + st("r"), cls="B", kind="canary",
      bound="operands <= 2 digits", unwind=UB + ["--stop-on-fail"], timeout=900, mem_gb=10, defs=["-DCANARY_iintTimes", "-DV_NO_VREACH", "-DSB_B0=0xFFFFFFFFU", "-DSB_B1=0U"])
    # quotient/remainder identity on the real iintDivide for constant two-digit divisors
    DVS = [("80000000_ffffffff", "0xFFFFFFFFU", "0x80000000U"),      # top digit >= B/2: no normalisation (d = 1)
           ("00000001_00000000", "0x00000000U", "0x00000001U"),      # b = 2^32: largest normalisation factor
           ("12345678_9abcdef1", "0x9ABCDEF1U", "0x12345678U"),
           ("ffffffff_ffffffff", "0xFFFFFFFFU", "0xFFFFFFFFU"),
           ("00000003_00000007", "0x00000007U", "0x00000003U")]
    # b = 2^32 is decided (7 s) but degenerate (v2 = 0: the qhat corrections never fire).  For the other divisors the
    # proof gives no result in 900 s, while a wrong quotient digit is FOUND in 1-2 min (seed C11-r2m2): they run as
    # bounded-time refutation searches (kind "refute": a failure is a violation, no result is 'inconclusive', never counted)
    for tag, b0, b1 in DVS:
        decided = tag == "00000001_00000000"
        if not decided and tier != "thorough" and tag not in ("80000000_ffffffff", "00000003_00000007"):
            continue
        J("iint.iintDivide.identity.b_%s" % tag, "h_iintDivide_const", ["iintDivide", "iintTimesS", "bintLT"],
          st("u") + st("v") + st("q") + st("r"), cls="B", kind="obligation" if decided else "refute",
          bound="dividend 2..3 digits (every value), divisor the constant 0x%s" % tag.replace("_", ""), unwind=UB,
          timeout=600 if decided else (80 if tier != "thorough" else 400), mem_gb=12,
          defs=["-DDV_B0=" + b0, "-DDV_B1=" + b1])
    J("canary.iint.iintDivide", "h_iintDivide_const", ["iintDivide"], st("u") + st("v") + st("q") + st("r"), cls="B", kind="canary",
      unwind=UB + ["--stop-on-fail"], timeout=900, mem_gb=12, defs=["-DCANARY_iintDivide", "-DV_NO_VREACH"])
    if PROBE:       # a symbolic 32x32-bit digit product: no result on SAT or z3 (900 s)
        J("iint.iintTimes.schoolbook", "h_iintTimes_schoolbook", ["iintTimes"], st("a") + st("b") + st("r"), cls="B",
          bound="operands <= 2 digits (64 bits) each", unwind=UB + ["--z3"], timeout=900, mem_gb=10, assumed=[SB])
        J("iint.iintTimesS.schoolbook", "h_iintTimesS_schoolbook", ["iintTimesS"], st("a") + st("r0") + ["alias", "d", "c"], cls="B",
          bound="multiplicand <= 3 digits, any non-zero digit multiplier", unwind=UB + ["--z3"], timeout=900, mem_gb=10, assumed=[SB])
    if PROBE:       # undecided (SAT and z3, 1500 s)
        J("iint.iintDivide.memory_safety_and_result_form", "h_iintDivide_wf", ["iintDivide", "iintDivideS", "iintTimesS", "bintLT"],
          st("u") + st("v") + st("q") + st("r"), cls="B",
          bound="dividend <= 3 digits, divisor <= 2 digits; the identity a == q*b + r is NOT decided", unwind=UB + ["--z3"], timeout=1500, mem_gb=10)
    # bintShiftRem (fiBIntShiftRem passes the user's count): int-typed shifts by n, hence --undefined-shift-check
    SHC = STD + ["--undefined-shift-check"]
    for k, kn in K1:
        J("bint.bintShiftRem.%s.n_ge_1" % kn, "h_bintShiftRem_%s" % k, ["bintShiftRem", "bintAlloc", "xintImmedIfCan"],
          bk("b")[:-1] + ["n"], cls="B", bound=B3 + ", 1 <= n <= 126, b >= 0", unwind=UB, timeout=400, checks=SHC)
    # n == 0 on a stored number: bintAlloc(0) gives capacity 0 and `for (i=0; i<Placea(r) - 1; i++)` wraps;
    # 12 iterations without unwinding assertions are enough to run off the 10-digit struct
    J("bint.bintShiftRem.stored.n_eq_0_included", "h_bintShiftRem_s0", ["bintShiftRem"], bk("b")[:-1] + ["n"], cls="B",
      bound=B3 + ", 0 <= n <= 126, b >= 0", unwind=["--slice-formula", "--unwind", "12"], timeout=400, checks=SHC)
    J("bint.bintFrPlacev", "h_bintFrPlacev", ["bintFrPlacev", "xintImmedIfCan"] + ALLOC, ["neg", "pc", "data_d0", "data_d1", "data_d2", "data_d3"],
      cls="B", bound="<= 3 digits", unwind=UB)

    # ------------------------------------------------------------------------------------------------
    # class P in the number of digits: memory safety of the index loops via spliced loop contracts
    # (exact-size objects, placea symbolic, harness objects capped at 2^10 digits, loops closed by their contracts and not unwound; no value is claimed)
    MEM = (("bintEQ", ["a", "b"], []), ("bintLT", ["a", "b"], []), ("bintGT", ["a", "b"], []),
           ("bintCopy", ["a"], []), ("iintAbs", ["a", "r0"], ["alias"]), ("iintNegate", ["a", "r0"], ["alias"]),
           ("iintPlus", ["a", "b", "r0"], ["alias"]), ("iintMinus", ["a", "b", "r0"], ["alias"]),
           ("iintTimesS", ["a", "r0"], ["alias", "d"]), ("iintTimesPlusS", ["a", "r0"], ["alias", "d", "c"]),
           ("iintDivideS", ["a", "q0"], ["alias", "d"]), ("xintNeeds", ["b"], ["bitc"]))
    for f, objs, extra in MEM:
        ins = [o + "_" + x for o in objs for x in ("neg", "pa", "pc")] + extra
        js.append({"name": "mem.%s.any_length" % f, "src": "bigint_mem_h.c", "entry": "m_" + f, "functions": [f],
                   "inputs": ins, "cls": "P", "kind": "obligation", "checks": NOPTR, "native": True,
                   "splice": {"bigint.c": "bigint.json"}, "loops": True, "timeout": 400,
                   "cbmc": ["--unwind", "3", "--unwinding-assertions"]})
    # ------------------------------------------------------------------------------------------------
    # dword.c: full-word double-word primitives
    def D(name, entry, fns, ins, **kw):
        d = {"name": name, "src": "dword_h.c", "entry": entry, "functions": fns, "inputs": ins, "cls": "P",
             "kind": "obligation", "checks": STD, "native": True, "timeout": 120, "cbmc": ["--unwind", "4", "--unwinding-assertions"]}
        d.update(kw)
        js.append(d)
    D("dword.xxTestGtDouble", "h_xxTestGtDouble", ["xxTestGtDouble"], ["ah", "al", "bh", "bl"])
    D("dword.xxPlusStep", "h_xxPlusStep", ["xxPlusStep"], ["a", "b", "ki"])
    D("canary.dword.xxTestGtDouble", "h_xxTestGtDouble", ["xxTestGtDouble"], ["ah", "al", "bh", "bl"],
      defs=["-DCANARY_xxTestGtDouble"], kind="canary")
    D("canary.dword.xxPlusStep", "h_xxPlusStep", ["xxPlusStep"], ["a", "b", "ki"], defs=["-DCANARY_xxPlusStep"], kind="canary")
    Z3S = ["--unwind", "4", "--unwinding-assertions", "--z3", "--slice-formula"]
    # the product of the half words (z3: the two sides are the same bit-vector term after slicing, 4 s)
    D("dword.xxTimesDouble.half_words", "h_xxTimesDouble_half", ["xxTimesDouble"], ["a", "b"], timeout=300, cbmc=Z3S)
    if PROBE:
        # full multiplier/divider equivalences: undecided on SAT and z3 (1200 s)
        D("dword.xxTimesDouble.low_word", "h_xxTimesDouble_low", ["xxTimesDouble"], ["a", "b"], timeout=1200, cbmc=Z3S)
        D("dword.xxTimesDouble.full", "h_xxTimesDouble", ["xxTimesDouble"], ["a", "b"], timeout=1200, cbmc=Z3S)
        D("dword.xxModDouble.divisor_below_2^32", "h_xxModDouble_small", ["xxModDouble"], ["nh", "nl", "d"], timeout=1200, cbmc=Z3S)

    # canary of the loop-contract family: with only the code's own assert (Placea(r) >= Placec(a)) as precondition the
    # carry digit of iintPlus has no room (loop bodies are havocked, so the carry is arbitrary): must FAIL
    js.append({"name": "canary.mem.iintPlus", "src": "bigint_mem_h.c", "entry": "m_iintPlus", "functions": ["iintPlus"],
               "inputs": [], "cls": "P", "kind": "canary", "checks": NOPTR, "defs": ["-DCANARY_mem_iintPlus"],
               "splice": {"bigint.c": "bigint.json"}, "loops": True, "timeout": 240,
               "cbmc": ["--unwind", "3", "--unwinding-assertions"]})
    return js
