/* Shared by the C11 harness translation units; #included AFTER the real unit (bigint.c, ...).
 *
 * Memory model used by the value harnesses (probed, see jobs.py):
 *   - an object allocated with a SYMBOLIC size (malloc(24+4*placea)) is a byte array of symbolic size for
 *     CBMC; every b->placev[i] becomes a byte_extract and iintPlus on 3 digits needs 3.1M variables / 50 s.
 *     The same harness with objects of the declared type (malloc(sizeof(struct bint))) needs 34k variables / 1 s.
 *   - so every BInt with capacity <= NARY (=10) digits, whether built here or allocated by the code under
 *     contract through stoAlloc, is a whole `struct bint`; at-least-as-large is what the allocator
 *     promises (C10).  Tightness with respect to the capacity the code believes in (placea) is kept by a
 *     SENTINEL: all NARY digit slots are filled with the nondeterministic value g_sent at allocation and
 *     SLACK_OK(b) demands afterwards that every slot at index >= placea still holds it.  A store beyond
 *     placea of any value other than g_sent is therefore detected for some g_sent, a store beyond
 *     NARY digits by --bounds-check/--pointer-check.
 *   - capacities > NARY (the "any length" harnesses) are allocated exactly, fullsizeof(struct bint, placea, digit).
 */
#include "vharness.h"
#ifdef C11_BUG_DIAG      /* memory-safety harnesses with havocked loops: the code's own assert() is a visible refusal */
# define V_STUB_BUG_DIAG
#else                    /* value harnesses: reaching bug()/assert() is a failed obligation */
# define V_STUB_BUG_UNREACHABLE
#endif
#include "stubs.h"
#include "c_bigint.h"

BIntS g_sent;                                     /* sentinel value of the slack digits; an INPUT of every harness */

static void fill_sentinel(struct bint *b)
{
	b->placev[0] = g_sent; b->placev[1] = g_sent; b->placev[2] = g_sent; b->placev[3] = g_sent; b->placev[4] = g_sent;
	b->placev[5] = g_sent; b->placev[6] = g_sent; b->placev[7] = g_sent; b->placev[8] = g_sent; b->placev[9] = g_sent;
}

/* allocator stub (ASSUMPTION, = property C10): fresh non-NULL memory of at least the requested size.
 * Default: every request must fit a whole struct bint (capacity <= NARY digits) and gets exactly that, with
 * sentinel-filled slack; a larger request is a visible failed CHECK, not a silently dropped path.
 * (A reachable malloc of symbolic size would turn every access into a symbolic-size byte-array access.)
 * -DC11_BIG_ALLOC: requests of any size, allocated exactly (used by the string/any-length harnesses). */
MostAlignedType *stoAlloc(unsigned code, ULong size)
{
	(void) code;
#ifdef C11_BIG_ALLOC
	{
		void *p = malloc(size ? size : 1);
# ifndef NATIVE_REPLAY
		__CPROVER_assume(p != 0);
# endif
		return (MostAlignedType *) p;
	}
#else
	{
		struct bint *b;
# ifndef NATIVE_REPLAY
		__CPROVER_assert(size <= sizeof(struct bint), "CHECK harness bound: allocation request fits a struct bint (capacity <= NARY digits)");
		__CPROVER_assume(size <= sizeof(struct bint));
# endif
# ifdef NATIVE_REPLAY
		if (size > sizeof(struct bint)) return (MostAlignedType *) malloc(size);
# endif
# ifdef C11_RAW_ALLOC   /* word-buffer objects: Placev(b)[-1] is then the platform's actual word (see iintShift_1d) */
		b = (struct bint *) (unsigned long *) malloc(sizeof(unsigned long[sizeof(struct bint) / sizeof(unsigned long)]));
# else
		b = (struct bint *) malloc(sizeof(struct bint));     /* a CONSTANT size: the object has the declared type */
# endif
# ifndef NATIVE_REPLAY
		__CPROVER_assume(b != 0);
# endif
		fill_sentinel(b);
		return (MostAlignedType *) b;
	}
#endif
}
void stoFree(Pointer p) { (void) p; }              /* no-op: a use after bintFree is not hidden by reuse */
MostAlignedType *stoResize(Pointer p, ULong size)
{
	void *q = realloc(p, size ? size : 1);
#ifndef NATIVE_REPLAY
	__CPROVER_assume(q != 0);
#endif
	return (MostAlignedType *) q;
}
#ifdef NATIVE_REPLAY
const char *__asan_default_options(void) { return "detect_leaks=0"; }   /* harness objects are never freed */
#endif

#define BS_SL(b,i)   ((Length)(i) < (b)->placea || (b)->placev[i] == g_sent)
#define SLACK_OK(b)  (BS_IS_IMM(b) || \
		      (BS_SL(b,0) && BS_SL(b,1) && BS_SL(b,2) && BS_SL(b,3) && BS_SL(b,4) && \
		       BS_SL(b,5) && BS_SL(b,6) && BS_SL(b,7) && BS_SL(b,8) && BS_SL(b,9)))

/* a stored number of capacity placea <= NARY: placec digits in use, first nd digits from d[].
 * (Kept separate from mk_stored_any: a reachable malloc of symbolic size anywhere in the function makes every
 * later access a symbolic-size byte-array access.) */
static BInt mk_stored(int neg, Length placea, Length placec, const BIntS *d, Length nd)
{
	BInt b;
	Length i;
	b = (BInt) malloc(sizeof(struct bint));
#ifndef NATIVE_REPLAY
	__CPROVER_assume(b != 0 && placea <= NARY);
#endif
	fill_sentinel(b);
	b->isNeg  = neg;
	b->placea = placea;
	b->placec = placec;
	for (i = 0; i < nd && i < placea; i++) b->placev[i] = d[i];
	return b;
}
/* any capacity: allocated exactly as bintAllocPlaces does */
static BInt mk_stored_any(int neg, Length placea, Length placec, const BIntS *d, Length nd)
{
	BInt b;
	Length i;
	b = (BInt) malloc(fullsizeof(struct bint, placea, BIntS));
#ifndef NATIVE_REPLAY
	__CPROVER_assume(b != 0);
#endif
	b->isNeg  = neg;
	b->placea = placea;
	b->placec = placec;
	for (i = 0; i < nd && i < placea; i++) b->placev[i] = d[i];
	return b;
}

/* symbolic inputs.  K is a compile-time constant selecting immediate (1) or stored (0): a variable that may be
 * either an integer-cast pointer or a heap pointer costs a factor 10 in solver time, so the two shapes are
 * separate entry points (jobs *.imm / *.st) whose union is the whole domain. */
#define IN_DIGITS(x) \
	INPUT(BIntS, x##_d0); INPUT(BIntS, x##_d1); INPUT(BIntS, x##_d2); INPUT(BIntS, x##_d3); \
	BIntS x##_d[4]; x##_d[0] = x##_d0; x##_d[1] = x##_d1; x##_d[2] = x##_d2; x##_d[3] = x##_d3
#define IN_STORED(x) \
	INPUT(int, x##_neg); INPUT(Length, x##_pa); INPUT(Length, x##_pc); IN_DIGITS(x); \
	ASSUME(x##_pa <= 4 && (x##_neg == 0 || x##_neg == 1)); \
	BInt x = mk_stored(x##_neg, x##_pa, x##_pc, x##_d, 4)
#define IN_IMM(x) \
	INPUT(long, x##_val); \
	BInt x = BS_MKIMM(x##_val)
#define IN_BINT_K(x, K) \
	INPUT(long, x##_val); INPUT(int, x##_neg); INPUT(Length, x##_pa); INPUT(Length, x##_pc); IN_DIGITS(x); \
	ASSUME(x##_pa <= 4 && (x##_neg == 0 || x##_neg == 1)); \
	BInt x = (K) ? BS_MKIMM(x##_val) : mk_stored(x##_neg, x##_pa, x##_pc, x##_d, 4)
/* any length: capacity up to 2^16 digits, digits 0..3 and the top digit symbolic */
#define IN_BINT_ANYLEN_K(b, K) \
	INPUT(long, b##_val); INPUT(int, b##_neg); \
	INPUT(Length, b##_pa); INPUT(Length, b##_pc); IN_DIGITS(b); INPUT(BIntS, b##_top); \
	BInt b; \
	ASSUME(b##_pa <= 65536 && b##_pc <= b##_pa && (b##_neg == 0 || b##_neg == 1)); \
	if (K) b = BS_MKIMM(b##_val); \
	else { b = mk_stored_any(b##_neg, b##_pa, b##_pc, b##_d, 4); if (b##_pc > 4) b->placev[b##_pc - 1] = b##_top; }

#define CAP3(x)      ASSUME(BS_IS_IMM(x) || (x)->placec <= 3)
#define CANON3(x)    ASSUME(BS_IS_IMM(x) || ((x)->placec <= (x)->placea && (x)->placec <= 3)); ASSUME(BS_CANON(x))

/* goto-instrument --dfcc havocs every non-const static: re-establish bigint.c's two (the job
 * bint.constants checks, without dfcc, that these ARE the C initialisers) */
#define INIT_STATICS()  do { bint0 = BS_MKIMM(0); bint1 = BS_MKIMM(1); } while (0)
