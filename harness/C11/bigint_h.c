/* C11 harnesses: the real bigint.c is included verbatim (file-local macros PlusStep, MinusStep,
 * TimesStep, TestGTDouble, TimesDouble, DivideDouble and the local functions bintModi, bintToULong
 * are reached this way).  Nothing from the repository is copied or re-typed. */
#include "bigint.c"
#include "bint_common.c"

/* ============================== machine integers (P) ============================== */
void h_uintLength(void)
{
	INPUT(unsigned long, u);
	Length r = uintLength(u);
	CONTRACT_POST("c_uintLength.postcondition", POST_uintLength(u, r));
	VREACH();
}
void h_intLength(void)
{
	INPUT(long, n);
	Length r = intLength(n);
	CONTRACT_POST("c_intLength.postcondition", POST_intLength(n, r));
	VREACH();
}
void h_uintBit(void)
{
	INPUT(unsigned long, u);
	INPUT(Length, ix);
	Bool r = uintBit(u, ix);
	CONTRACT_POST("c_uintBit.postcondition", POST_uintBit(u, ix, r));
	VREACH();
}
void h_intBit(void)
{
	INPUT(long, n);
	INPUT(Length, ix);
	Bool r = intBit(n, ix);
	CONTRACT_POST("c_intBit.postcondition", POST_intBit(n, ix, r));
	VREACH();
}

/* ============================== immediates and conversion (P) ============================== */
void h_bintNew(void)
{
	INPUT(long, n);
	INPUT(BIntS, sent); g_sent = sent;
	BInt r = bintNew(n);
	CONTRACT_POST("c_bintNew.postcondition", POST_bintNew(n, r));
	CHECK("bintNew: no digit stored beyond the allocated capacity", SLACK_OK(r));
	VREACH();
}
void h_xintStoreI(void)
{
	INPUT(long, n);
	INPUT(BIntS, sent); g_sent = sent;
	BInt r = xintStoreI(n);
	CONTRACT_POST("c_xintStoreI.postcondition", POST_xintStoreI(n, r));
	CHECK("xintStoreI: no digit stored beyond the allocated capacity", SLACK_OK(r));
	VREACH();
}
void h_xintCopyInI(void)
{
	INPUT(long, n);
	INPUT(BIntS, sent); g_sent = sent;
	IN_STORED(b);                     /* capacity 0..4, contents and placec arbitrary */
	Length pa = b->placea;
	g_pa = pa;
	CONTRACT_PRE(PRE_xintCopyInI(b, n));
	BInt r = xintCopyInI(b, n);
	CONTRACT_POST("c_xintCopyInI.postcondition", POST_xintCopyInI(pa, b, n, r));
	CHECK("xintCopyInI: no digit stored beyond the capacity", SLACK_OK(r) && SLACK_OK(b));
	VREACH();
}
/* any number of digits: placea/placec symbolic up to 2^16 (the routine reads at most two digits
 * and the top one) */
#define BODY_xintImmedIfCan(K) \
{ \
	INPUT(BIntS, sent); g_sent = sent; \
	IN_BINT_ANYLEN_K(b, K); \
	BInt r; \
	ASSUME(PRE_xintImmedIfCan(b)); \
	r = xintImmedIfCan(b); \
	CONTRACT_POST("c_xintImmedIfCan.postcondition", POST_xintImmedIfCan(b, r)); \
	CHECK("xintImmedIfCan: the result is canonical", BS_CANON(r)); \
	VREACH(); \
}
void h_xintImmedIfCan_imm(void) BODY_xintImmedIfCan(1)
void h_xintImmedIfCan_st(void)  BODY_xintImmedIfCan(0)
void h_bintIsSmall(void)
{
	INPUT(long, w);
	BInt b = (BInt) w;                /* only the tag bit is inspected: any word */
	Bool r = bintIsSmall(b);
	CONTRACT_POST("c_bintIsSmall.postcondition", POST_bintIsSmall(b, r));
	VREACH();
}
void h_bintSmall(void)
{
	INPUT(long, w);
	BInt b = (BInt) w;
	ASSUME(PRE_bintSmall(b));
	long r = bintSmall(b);
	CONTRACT_POST("c_bintSmall.postcondition", POST_bintSmall(b, r));
	VREACH();
}
/* property: "conversion to and from machine integers": round trip through the REAL bodies */
void h_roundtrip_small(void)
{
	INPUT(long, n);
	BInt b = bintNew(n);
	CHECK("bintIsSmall(bintNew(n)) exactly when n is in the immediate range", (bintIsSmall(b) != 0) == BS_FITS_IMM(n));
	if (bintIsSmall(b))
		CHECK("bintSmall(bintNew(n)) == n", bintSmall(b) == n);
	else
		CHECK("bintToULong(bintNew(n)) == |n| for stored n", (bs_u) bintToULong(b) == BS_LABS(n));
	CHECK("sign of bintNew(n)", (bintIsNeg(b) != 0) == (n < 0) && (bintIsZero(b) != 0) == (n == 0) && (bintIsPos(b) != 0) == (n > 0));
	VREACH();
}

/* sign tests: canonical number of any length (only header and tag are read) */
#define H_SIGN(fn, sfx, K) \
void h_##fn##_##sfx(void) \
{ \
	INPUT(BIntS, sent); g_sent = sent; \
	IN_BINT_ANYLEN_K(b, K); \
	ASSUME(BS_CANON(b)); \
	Bool r = fn(b); \
	CONTRACT_POST("c_" #fn ".postcondition", POST_##fn(b, r)); \
	VREACH(); \
}
H_SIGN(bintIsNeg, imm, 1)  H_SIGN(bintIsNeg, st, 0)
H_SIGN(bintIsZero, imm, 1) H_SIGN(bintIsZero, st, 0)
H_SIGN(bintIsPos, imm, 1)  H_SIGN(bintIsPos, st, 0)

/* the two non-const statics of bigint.c have the values INIT_STATICS() re-establishes in dfcc jobs */
void h_constants(void)
{
	CHECK("bint0 is the immediate 0", bint0 == BS_MKIMM(0) && BS_V(bint0) == 0);
	CHECK("bint1 is the immediate 1", bint1 == BS_MKIMM(1) && BS_V(bint1) == 1);
	CHECK("the code's radix is 2^32 and its immediate range is +-(2^62-1)",
	      (bs_u) BINT_RADIX == BS_B && BINT_LG_RADIX == BS_LG && INT_MAX_IMMED == BS_IMM_MAX && INT_MIN_IMMED == BS_IMM_MIN);
	VREACH();
}

/* ============================== double-word step macros (P) ==============================
 * one-line wrappers around the REAL macros of bigint.c, all digit values */
void h_PlusStep(void)
{
	INPUT(BIntS, a); INPUT(BIntS, b); INPUT(BIntS, kin);
	BIntS k, s;
	ASSUME(kin <= 1);
	PlusStep(k, s, a, b, kin);
#ifndef CANARY_PlusStep
	CHECK("PlusStep: kout*B + r == a + b + kin", (bs_u) k * BS_B + s == (bs_u) a + b + kin);
#else
	CHECK("PlusStep canary: carry-in ignored", (bs_u) k * BS_B + s == (bs_u) a + b);
#endif
	CHECK("PlusStep: kout is 0 or 1", k <= 1);
	VREACH();
}
void h_MinusStep(void)
{
	INPUT(BIntS, a); INPUT(BIntS, b); INPUT(BIntS, kp1in);
	BIntS kp1, s;
	ASSUME(kp1in <= 1);
	MinusStep(kp1, s, a, b, kp1in);
	/* borrow k = kp1 - 1 in {-1, 0}:  r + k_out*B == a - b + k_in */
	CHECK("MinusStep: r + (kp1out-1)*B == a - b + (kp1in-1)",
	      (bs_v) s + ((bs_v) kp1 - 1) * (bs_v) BS_B == (bs_v) a - (bs_v) b + ((bs_v) kp1in - 1));
	CHECK("MinusStep: kp1out is 0 or 1", kp1 <= 1);
	VREACH();
}
/* The three multiply/divide steps are stated in 64-bit unsigned arithmetic, where both sides are exact:
 * (2^32-1)^2 + 2*(2^32-1) == 2^64-1, so a*b + c + kin never wraps (a pencil-and-paper fact, listed in
 * ASSUMPTIONS); kout*B + r < 2^64 because kout, r < 2^32.  (Stated over __int128 the solver has to prove
 * a 64-bit and a 128-bit multiplier equivalent, which it does not do in 300 s.) */
void h_TimesStep(void)
{
	INPUT(BIntS, a); INPUT(BIntS, b); INPUT(BIntS, c); INPUT(BIntS, kin);
	BIntS k, s;
	TimesStep(k, s, a, b, c, kin);
#ifndef CANARY_TimesStep
	CHECK("TimesStep: kout*B + r == a*b + c + kin",
	      (unsigned long) k * 0x100000000UL + s == (unsigned long) a * (unsigned long) b + c + kin);
#else
	CHECK("TimesStep canary: carry-in ignored",
	      (unsigned long) k * 0x100000000UL + s == (unsigned long) a * (unsigned long) b + c);
#endif
	VREACH();
}
void h_TimesDouble(void)
{
	INPUT(BIntS, a); INPUT(BIntS, b);
	BIntS h, l;
	TimesDouble(h, l, a, b);
	CHECK("TimesDouble: h*B + l == a*b", (unsigned long) h * 0x100000000UL + l == (unsigned long) a * (unsigned long) b);
	VREACH();
}
void h_DivideDouble(void)
{
	INPUT(BIntS, nh); INPUT(BIntS, nl); INPUT(BIntS, d);
	BIntD q; BIntS r;             /* quotient received in a double digit: no truncation */
	ASSUME(d != 0);
	DivideDouble(q, r, nh, nl, d);
#ifdef DIVIDE_REMULTIPLY
	/* a 64-bit multiplier/divider equivalence: not closed by the SAT back end in 120 s (thorough tier only) */
	CHECK("DivideDouble: q*d + r == nh*B + nl", q * (unsigned long) d + r == (unsigned long) nh * 0x100000000UL + nl);
#endif
	CHECK("DivideDouble: r < d", r < d);
	VREACH();
}
/* the use sites (iintDivideS, Algorithm D step D3) store the quotient in ONE digit; that is exact iff
 * the high numerator digit is below the divisor (the running remainder) */
void h_DivideDouble_fits(void)
{
	INPUT(BIntS, nh); INPUT(BIntS, nl); INPUT(BIntS, d);
	BIntD q; BIntS r;
	ASSUME(d != 0 && nh < d);
	DivideDouble(q, r, nh, nl, d);
	CHECK("DivideDouble: quotient fits one digit when nh < d", q < 0x100000000UL);
	VREACH();
}
void h_TestGTDouble(void)
{
	INPUT(BIntS, h1); INPUT(BIntS, l1); INPUT(BIntS, h2); INPUT(BIntS, l2);
	Bool g;
	TestGTDouble(g, h1, l1, h2, l2);
#ifndef CANARY_TestGTDouble
	CHECK("TestGTDouble: (h1,l1) > (h2,l2)", (g != 0) == ((bs_u) h1 * BS_B + l1 > (bs_u) h2 * BS_B + l2));
#else
	CHECK("TestGTDouble canary: >=", (g != 0) == ((bs_u) h1 * BS_B + l1 >= (bs_u) h2 * BS_B + l2));
#endif
	VREACH();
}

/* ============================== digit-vector routines, <= 3 digits per operand (B) ==============
 * all digit values, lengths, capacities symbolic; ALIAS (a constant per entry point) selects the
 * aliasing the routine's comment allows: 0 r distinct, 1 r == a, 2 r == b */
#define PICK_R(r, r0, alias, a, b)  BInt r = (alias) == 1 ? (a) : (alias) == 2 ? (b) : (r0)
#define ENTRIES3(fn) \
void h_##fn##_r(void)  BODY_##fn(0) \
void h_##fn##_ra(void) BODY_##fn(1) \
void h_##fn##_rb(void) BODY_##fn(2)
#define ENTRIES2(fn) \
void h_##fn##_r(void)  BODY_##fn(0) \
void h_##fn##_ra(void) BODY_##fn(1)

#define BODY_iintAbs(alias) \
{ \
	INPUT(BIntS, sent); g_sent = sent; \
	IN_STORED(a); IN_STORED(r0); \
	PICK_R(r, r0, alias, a, a); \
	ASSUME(a->placec <= a->placea); CAP3(a); \
	ASSUME(PRE_iintAbs(r, a)); \
	g_ma = BS_MAG(a); \
	iintAbs(r, a); \
	CONTRACT_POST("c_iintAbs.postcondition", POST_iintAbs(g_ma, r)); \
	CHECK("iintAbs: no digit stored beyond the capacity", SLACK_OK(r) && SLACK_OK(a)); \
	VREACH(); \
}
ENTRIES2(iintAbs)
#define BODY_iintNegate(alias) \
{ \
	INPUT(BIntS, sent); g_sent = sent; \
	IN_STORED(a); IN_STORED(r0); \
	PICK_R(r, r0, alias, a, a); \
	ASSUME(a->placec <= a->placea); CAP3(a); \
	ASSUME(PRE_iintNegate(r, a)); \
	g_ma = BS_MAG(a); g_na = a->isNeg; \
	iintNegate(r, a); \
	CONTRACT_POST("c_iintNegate.postcondition", POST_iintNegate(g_na, g_ma, r)); \
	CHECK("iintNegate: no digit stored beyond the capacity", SLACK_OK(r) && SLACK_OK(a)); \
	VREACH(); \
}
ENTRIES2(iintNegate)
#define BODY_iintPlus(alias) \
{ \
	INPUT(BIntS, sent); g_sent = sent; \
	IN_STORED(a); IN_STORED(b); IN_STORED(r0); \
	PICK_R(r, r0, alias, a, b); \
	ASSUME(a->placec <= a->placea && b->placec <= b->placea); CAP3(a); CAP3(b); \
	ASSUME(PRE_iintPlus(r, a, b)); \
	g_ma = BS_MAG(a); g_mb = BS_MAG(b); \
	iintPlus(r, a, b); \
	CONTRACT_POST("c_iintPlus.postcondition", POST_iintPlus(g_ma, g_mb, r)); \
	CHECK("iintPlus: no digit stored beyond the capacity", SLACK_OK(r) && SLACK_OK(a) && SLACK_OK(b)); \
	VREACH(); \
}
ENTRIES3(iintPlus)
#define BODY_iintMinus(alias) \
{ \
	INPUT(BIntS, sent); g_sent = sent; \
	IN_STORED(a); IN_STORED(b); IN_STORED(r0); \
	PICK_R(r, r0, alias, a, b); \
	ASSUME(a->placec <= a->placea && b->placec <= b->placea); CAP3(a); CAP3(b); \
	ASSUME(PRE_iintMinus(r, a, b)); \
	g_ma = BS_MAG(a); g_mb = BS_MAG(b); \
	iintMinus(r, a, b); \
	CONTRACT_POST("c_iintMinus.postcondition", POST_iintMinus(g_ma, g_mb, r)); \
	CHECK("iintMinus: no digit stored beyond the capacity", SLACK_OK(r) && SLACK_OK(a) && SLACK_OK(b)); \
	VREACH(); \
}
ENTRIES3(iintMinus)
/* EXCL = 1 leaves out left shifts of a ONE-digit number: there the code reads Placev(b)[-1] (bigint.c:2269,
 * `x0 |= h ? bp[i] >> h : 0` with i == -1), which CBMC gives an arbitrary value on a struct-typed operand;
 * that class is handled by BODY_iintShift_1d below */
#define BODY_iintShift(alias, EXCL) \
{ \
	INPUT(BIntS, sent); g_sent = sent; \
	IN_STORED(b); IN_STORED(r0); INPUT(int, n); \
	PICK_R(r, r0, alias, b, b); \
	ASSUME(b->placec >= 1 && b->placec <= b->placea); CAP3(b); \
	ASSUME(PRE_iintShift(r, b, n)); \
	if (EXCL) ASSUME(!(n > 0 && b->placec == 1)); \
	g_ma = BS_MAG(b); g_na = b->isNeg; \
	iintShift(r, b, n); \
	CONTRACT_POST("c_iintShift.postcondition", POST_iintShift(g_na, g_ma, n, r)); \
	CHECK("iintShift: no digit stored beyond the capacity", SLACK_OK(r) && SLACK_OK(b)); \
	VREACH(); \
}
void h_iintShift_r_excl(void)  BODY_iintShift(0, 1)
void h_iintShift_ra_excl(void) BODY_iintShift(1, 1)
/* The excluded class (left shift of a one-digit number).  There the code evaluates bp[-1] with bp == Placev(b):
 * an out-of-bounds read of the digit array (undefined behaviour in ISO C) that lands on the upper half of the
 * placec field.  When the operand is a `struct bint` object CBMC gives such a sub-object underflow an ARBITRARY
 * value, so nothing can be decided; here the operand is laid out by the same struct type inside a plain word
 * buffer, which makes the read an ordinary in-bounds load of the bytes the compiler puts there (LE LP64: the
 * zero upper half of placec == 1).  ASSUMPTION (labelled in jobs.py): the target's struct layout, i.e. what is
 * proved is "exact on this platform", not that the read is legitimate C. */
#define BODY_iintShift_1d(alias) \
{ \
	INPUT(BIntS, sent); g_sent = sent; \
	INPUT(int, b_neg); INPUT(Length, b_pa); INPUT(BIntS, b_d0); IN_STORED(r0); INPUT(int, n); \
	unsigned long raw[sizeof(struct bint) / sizeof(unsigned long)]; \
	BInt b = (BInt) raw; \
	ASSUME(b_pa >= 1 && b_pa <= 4 && (b_neg == 0 || b_neg == 1)); \
	fill_sentinel(b); \
	b->isNeg = b_neg; b->placea = b_pa; b->placec = 1; b->placev[0] = b_d0; \
	PICK_R(r, r0, alias, b, b); \
	ASSUME(n > 0); \
	ASSUME(PRE_iintShift(r, b, n)); \
	g_ma = BS_MAG(b); g_na = b->isNeg; \
	iintShift(r, b, n); \
	CHECK("iintShift (one digit, left): exact, sign kept, result form", POST_iintShift(g_na, g_ma, n, r)); \
	CHECK("iintShift (one digit, left): no digit stored beyond the capacity", SLACK_OK(r) && SLACK_OK(b)); \
	VREACH(); \
}
void h_iintShift_r_1d(void)  BODY_iintShift_1d(0)
void h_iintShift_ra_1d(void) BODY_iintShift_1d(1)

/* ============================== comparison, length, bit ===========================================
 * immediate x immediate: class P (all immediates); any stored operand: class B (<= 3 digits) */
/* the INPUTs must be locals of the entry function (the driver reads counterexample values there), so the
 * bodies are macros instantiated once per shape */
#define ENTRIES_K(fn) \
void h_##fn##_i(void) BODY_##fn(1) \
void h_##fn##_s(void) BODY_##fn(0)

#define H_CMP(fn, sfx, KA, KB) \
void h_##fn##_##sfx(void) \
{ \
	INPUT(BIntS, sent); g_sent = sent; \
	IN_BINT_K(a, KA); IN_BINT_K(b0, KB); INPUT(int, same); \
	BInt b = (same && KA == KB) ? a : b0;   /* the pointer-identical case of the first test */ \
	CANON3(a); CANON3(b); \
	Bool r = fn(a, b); \
	CONTRACT_POST("c_" #fn ".postcondition", POST_##fn(a, b, r)); \
	VREACH(); \
}
#define H_CMP4(fn) H_CMP(fn, ii, 1, 1) H_CMP(fn, is, 1, 0) H_CMP(fn, si, 0, 1) H_CMP(fn, ss, 0, 0)
H_CMP4(bintEQ)
H_CMP4(bintLT)
H_CMP4(bintGT)

#define BODY_bintLength(K) \
{ \
	INPUT(BIntS, sent); g_sent = sent; \
	IN_BINT_K(b, K); \
	CANON3(b); \
	Length r = bintLength(b); \
	CONTRACT_POST("c_bintLength.postcondition", POST_bintLength(b, r)); \
	VREACH(); \
}
ENTRIES_K(bintLength)
#define BODY_bintBit(K) \
{ \
	INPUT(BIntS, sent); g_sent = sent; \
	IN_BINT_K(b, K); INPUT(Length, ix); \
	CANON3(b); \
	Bool r = bintBit(b, ix); \
	CONTRACT_POST("c_bintBit.postcondition", POST_bintBit(b, ix, r)); \
	VREACH(); \
}
ENTRIES_K(bintBit)
/* local: bintToULong is only called by bintMod on a stored divisor of bit length < 64 (two digits) */
void h_bintToULong(void)
{
	INPUT(BIntS, sent); g_sent = sent;
	IN_BINT_K(b, 0);
	CANON3(b);
	ASSUME(b->placec == 2);
	ULong r = bintToULong(b);
	CHECK("bintToULong: exact magnitude", (bs_u) r == BS_ABS(BS_V(b)));
	VREACH();
}

/* ============================== negate, abs, copy =================================================== */
#define H_UN(fn, sfx, K) \
void h_##fn##_##sfx(void) \
{ \
	INPUT(BIntS, sent); g_sent = sent; \
	IN_BINT_K(a, K); \
	CANON3(a); \
	bs_v va = BS_V(a); \
	BInt r = fn(a); \
	CHECK(#fn ": exact and canonical", POST_##fn(va, r)); \
	CHECK(#fn ": operand unchanged", BS_V(a) == va && BS_CANON(a)); \
	CHECK(#fn ": no digit stored beyond the capacity", SLACK_OK(r) && ((K) || SLACK_OK(a))); \
	VREACH(); \
}
H_UN(bintNegate, i, 1) H_UN(bintNegate, s, 0)
H_UN(bintAbs, i, 1)    H_UN(bintAbs, s, 0)
H_UN(bintCopy, i, 1)   H_UN(bintCopy, s, 0)

/* ============================== sum and difference ===================================================
 * The real bodies, everything inlined.  bintPlus and bintMinus call themselves and each other after
 * flipping signs; symbolic execution cannot see which of those calls are feasible, so each job fixes one SIGN
 * CASE (a constant SG per entry point) and bounds the re-entries with --unwindset bintPlus:N,bintMinus:M; the
 * recursion unwinding assertions then PROVE that no deeper call is reachable in that case.  The union of the
 * four sign cases is the whole domain.  (The modular route - each body against its contract with the inner
 * calls replaced, --enforce-contract-rec - was built and abandoned: goto-instrument's write-set instrumentation
 * plus the tagged-pointer dereferences made symbolic execution alone take > 150 s and the solver run out of
 * memory.)  Operands are in operand form (BS_WF_OP), which includes every canonical number.
 *   SG 0: a >= 0, b >= 0    SG 1: a < 0, b >= 0    SG 2: a >= 0, b < 0    SG 3: a < 0, b < 0 */
#ifdef C11_MODEL_ADDSUB
/* MODULAR (assume-guarantee over the recursion): the DEFINITIONS of bintPlus and bintMinus are renamed on every run
 * (tools/vlib.py splice "_rename_def") to bintPlus__real / bintMinus__real; the harness calls those, and the calls
 * they make to bintPlus / bintMinus bind to these models of the very contract the harness checks:
 *   precondition  (obligation of the caller)  operands in operand form, <= 3 digits, BOTH NON-NEGATIVE -- the latter is
 *                 the decreases clause: every re-entry is in sign case 0, which makes no re-entry;
 *   postcondition (all the caller may rely on) a fresh canonical number of value a+b resp. a-b, any capacity;
 *                 operands unchanged. */
static BInt m_addsub_result(bs_v v)
{
	bs_u m = BS_ABS(v);
	BIntS d[4]; Length pc, pa; int i;
	if (v >= (bs_v) BS_IMM_MIN && v <= (bs_v) BS_IMM_MAX) return BS_MKIMM((long) v);
	for (i = 0; i < 4; i++) d[i] = (BIntS) (m >> (32 * i));
	pc = (m >> 96) ? 4 : (m >> 64) ? 3 : (m >> 32) ? 2 : 1;
	{ INPUT(Length, m_pa); pa = m_pa; }
	ASSUME(pa >= pc && pa <= 4);
	return mk_stored(v < 0, pa, pc, d, 4);
}
#define M_ADDSUB(fn, OP) \
BInt fn(BInt a, BInt b) \
{ \
	CHECK("re-entry of " #fn ": inside the precondition (operand form, <= 3 digits)", \
	      (BS_IS_IMM(a) || a->placec <= a->placea) && (BS_IS_IMM(b) || b->placec <= b->placea) && PRE_bint2(a, b)); \
	CHECK("re-entry of " #fn ": both operands non-negative (decreases: sign case 0 makes no re-entry)", BS_V(a) >= 0 && BS_V(b) >= 0); \
	return m_addsub_result(BS_V(a) OP BS_V(b)); \
}
M_ADDSUB(bintPlus, +)
M_ADDSUB(bintMinus, -)
#define bintPlus_UNDER_TEST  bintPlus__real
#define bintMinus_UNDER_TEST bintMinus__real
#else
#define bintPlus_UNDER_TEST  bintPlus
#define bintMinus_UNDER_TEST bintMinus
#endif
#define SIGN_CASE(SG, va, vb) \
	((SG) == 0 ? ((va) >= 0 && (vb) >= 0) : (SG) == 1 ? ((va) < 0 && (vb) >= 0) : \
	 (SG) == 2 ? ((va) >= 0 && (vb) < 0) : ((va) < 0 && (vb) < 0))
#define H_ADD(fn, sfx, KA, KB, SG) \
void h_##fn##_##sfx##_sg##SG(void) \
{ \
	INPUT(BIntS, sent); g_sent = sent; \
	IN_BINT_K(a, KA); IN_BINT_K(b0, KB); INPUT(int, same); \
	BInt b = (same && KA == KB) ? a : b0; \
	ASSUME(BS_IS_IMM(a) || a->placec <= a->placea); ASSUME(BS_IS_IMM(b) || b->placec <= b->placea); \
	ASSUME(PRE_bint2(a, b)); \
	bs_v va = BS_V(a), vb = BS_V(b); \
	ASSUME(SIGN_CASE(SG, va, vb)); \
	BInt r = fn##_UNDER_TEST(a, b); \
	CHECK(#fn ": exact and canonical", POST_##fn(va, vb, r)); \
	CHECK(#fn ": operands unchanged", BS_V(a) == va && BS_V(b) == vb); \
	CHECK(#fn ": no digit stored beyond the capacity", SLACK_OK(r) && ((KA) || SLACK_OK(a)) && ((KB) || SLACK_OK(b))); \
	VREACH(); \
}
#define H_ADD4(fn, SG) H_ADD(fn, ii, 1, 1, SG) H_ADD(fn, is, 1, 0, SG) H_ADD(fn, si, 0, 1, SG) H_ADD(fn, ss, 0, 0, SG)
H_ADD4(bintPlus, 0)  H_ADD4(bintPlus, 1)  H_ADD4(bintPlus, 2)  H_ADD4(bintPlus, 3)
H_ADD4(bintMinus, 0) H_ADD4(bintMinus, 1) H_ADD4(bintMinus, 2) H_ADD4(bintMinus, 3)

/* ============================== products with an exact cheap formulation ============================ */
/* product of two half-range immediates (|x|,|y| < 2^31).  Modular: bintNew is replaced by its contract
 * (enforced in job bint.bintNew), so what is decided here is that bintTimes hands bintNew the 64-bit product of
 * the two decoded operands.  That this 64-bit product cannot wrap for |x|,|y| < 2^31 is arithmetic (2^62 < 2^63). */
void h_bintTimes_half(void)
{
	INPUT(long, x); INPUT(long, y);
	ASSUME(-0x7fffffffL <= x && x <= 0x7fffffffL && -0x7fffffffL <= y && y <= 0x7fffffffL);
	BInt r = bintTimes(BS_MKIMM(x), BS_MKIMM(y));
	CHECK("bintTimes on half-range immediates: canonical and equal to the product", BS_CANON(r) && BS_V(r) == (bs_v)(x * y));
	VREACH();
}
/* multiplication by 0, 1, -1 (any canonical other operand up to 3 digits) */
#define BODY_bintTimes_unit(K, U) \
{ \
	INPUT(BIntS, sent); g_sent = sent; \
	INPUT(int, swap); \
	IN_BINT_K(b, K); \
	CANON3(b); \
	bs_v vb = BS_V(b); \
	BInt r = swap ? bintTimes(b, BS_MKIMM(U)) : bintTimes(BS_MKIMM(U), b); \
	CHECK("bintTimes by 0, 1, -1 is exact and canonical", POST_bintTimes((bs_v) (U), vb, r)); \
	VREACH(); \
}
/* the unit is a constant per entry point: the early returns are then decided during symbolic execution and the
 * general (recursive, undecided) path of bintTimes is not unfolded */
void h_bintTimes_unit_i_0(void)  BODY_bintTimes_unit(1, 0)
void h_bintTimes_unit_i_1(void)  BODY_bintTimes_unit(1, 1)
void h_bintTimes_unit_i_m1(void) BODY_bintTimes_unit(1, -1)
void h_bintTimes_unit_s_0(void)  BODY_bintTimes_unit(0, 0)
void h_bintTimes_unit_s_1(void)  BODY_bintTimes_unit(0, 1)
void h_bintTimes_unit_s_m1(void) BODY_bintTimes_unit(0, -1)

/* ============================== shifts ================================================================ */
#ifdef C11_MODEL_IINTSHIFT
/* MODULAR: iintShift is replaced (definition renamed on every run, tools/vlib.py splice "_rename_def") by a model of
 * its own contract c_iintShift, which the iint.iintShift.* jobs enforce on the real iintShift: the precondition is
 * an obligation of the caller, the postcondition is all the caller may rely on */
void iintShift(BInt r, BInt b, int n)
{
	bs_u m; int i, pc;
	CHECK("bintShift calls iintShift inside iintShift's precondition", PRE_iintShift(r, b, n));
	m = BS_SHIFTED(BS_MAG(b), n);
	pc = (m >> 96) ? 4 : (m >> 64) ? 3 : (m >> 32) ? 2 : 1;
	for (i = 0; i < 4; i++) if ((Length) i < r->placea && i < pc) r->placev[i] = (BIntS) (m >> (32 * i));
	r->placec = pc;
	r->isNeg = b->isNeg;
}
#endif
#ifndef BINTSHIFT_RESULT_BITS
#define BINTSHIFT_RESULT_BITS 127	/* -DBINTSHIFT_RESULT_BITS=65: results around the immediate/stored boundary only (quick tier) */
#endif
#ifndef BINTSHIFT_RESULT_MINBITS
#define BINTSHIFT_RESULT_MINBITS 0	/* -DBINTSHIFT_RESULT_MINBITS=m: only results of at least m bits */
#endif
#ifdef BINTSHIFT_N			/* -DBINTSHIFT_N=k: the shift count is the constant k (one job per count) */
#define BINTSHIFT_N_DECL int n = (BINTSHIFT_N)
#else
#define BINTSHIFT_N_DECL INPUT(int, n)
#endif
#define BODY_bintShift(K) \
{ \
	INPUT(BIntS, sent); g_sent = sent; \
	IN_BINT_K(b, K); BINTSHIFT_N_DECL; \
	INIT_STATICS(); \
	CANON3(b); \
	ASSUME(BS_SHIFTED(BS_ABS(BS_V(b)), n) >= (((bs_u) 1) << BINTSHIFT_RESULT_MINBITS >> 1)); \
	/* bound: the result has at most 4 digits (127 bits) */ \
	ASSUME(n > -200 && n < 128 && (n <= 0 || (BS_SHIFTED(BS_ABS(BS_V(b)), n) >> n) == BS_ABS(BS_V(b))) && \
	       BS_SHIFTED(BS_ABS(BS_V(b)), n) < (((bs_u) 1) << BINTSHIFT_RESULT_BITS)); \
	bs_v vb = BS_V(b); \
	BInt r = bintShift(b, n); \
	CHECK("bintShift: exact (right shift truncates the magnitude) and canonical", POST_bintShift(vb, n, r)); \
	CHECK("bintShift: operand unchanged", BS_V(b) == vb); \
	CHECK("bintShift: no digit stored beyond the capacity", SLACK_OK(r) && ((K) || SLACK_OK(b))); \
	VREACH(); \
}
ENTRIES_K(bintShift)
/* lowest n bits of a non-negative number, every n >= 0 (fiBIntShiftRem passes the user's count) */
#define BODY_bintShiftRem(K, NMIN) \
{ \
	INPUT(BIntS, sent); g_sent = sent; \
	IN_BINT_K(b, K); INPUT(int, n); \
	CANON3(b); \
	ASSUME(BS_V(b) >= 0 && n >= (NMIN) && n <= 126); \
	bs_v vb = BS_V(b); \
	BInt r = bintShiftRem(b, n); \
	CHECK("bintShiftRem: the lowest n bits, canonical", POST_bintShiftRem(vb, n, r)); \
	CHECK("bintShiftRem: no digit stored beyond the capacity", SLACK_OK(r) && ((K) || SLACK_OK(b))); \
	VREACH(); \
}
void h_bintShiftRem_i(void)  BODY_bintShiftRem(1, 1)
void h_bintShiftRem_s(void)  BODY_bintShiftRem(0, 1)
void h_bintShiftRem_s0(void) BODY_bintShiftRem(0, 0)

/* ============================== from a digit vector ===================================================== */
void h_bintFrPlacev(void)
{
	INPUT(BIntS, sent); g_sent = sent;
	INPUT(int, neg); INPUT(Length, pc); IN_DIGITS(data);
	BIntS *data = data_d;
	ASSUME(pc <= 3 && (neg == 0 || neg == 1));
	bs_u m = pc == 0 ? 0 : pc == 1 ? (bs_u) data[0] : pc == 2 ? ((bs_u) data[0] | ((bs_u) data[1] << 32))
		 : ((bs_u) data[0] | ((bs_u) data[1] << 32) | ((bs_u) data[2] << 64));
	BInt r = bintFrPlacev(neg, pc, data);
	CHECK("bintFrPlacev: exact and canonical", POST_bintFrPlacev(neg, m, r));
	CHECK("bintFrPlacev: no digit stored beyond the capacity", SLACK_OK(r));
	VREACH();
}

/* ============================== product and quotient: memory safety and result form ONLY =============
 * (thorough tier)  The arithmetic identities r == a*b and a == q*b + r are NOT decided (64-bit multiplier and
 * divider equivalences); what is checked for operands of <= 2 digits is that the routines stay inside the
 * capacities their callers provide (bintTimes: ac+bc digits; bintDivide: m+1 and n+m+1 digits), never reach an
 * internal assert, and leave results in result form. */
void h_iintTimes_wf(void)
{
	INPUT(BIntS, sent); g_sent = sent;
	IN_STORED(a); IN_STORED(b); IN_STORED(r);
	ASSUME(a->placec <= a->placea && b->placec <= b->placea && a->placec <= 2 && b->placec <= 2);
	ASSUME(BS_WF_ST(a) && BS_WF_ST(b) && !a->isNeg && !b->isNeg);
	ASSUME(r->placea == a->placec + b->placec && r->placec == r->placea);      /* bintAllocPlaces(ac + bc) */
	iintTimes(r, a, b);
	CHECK("iintTimes: result form", BS_WF_RES(r) || (r->placec <= r->placea && (r->placec == 0 || BS_TOP_NZ(r))));
	CHECK("iintTimes: no digit stored beyond the capacity", SLACK_OK(r) && SLACK_OK(a) && SLACK_OK(b));
	VREACH();
}
/* ---- products against the SCHOOLBOOK expansion -----------------------------------------------------
 * spec: a * b = sum_{i,j} a_i * b_j * B^(i+j), every partial product a 64-bit product of two zero-extended digits --
 * exactly the terms the code forms in TimesStep -- accumulated in 128-bit arithmetic (no wrap for the sizes below).
 * That this sum is the mathematical product is distributivity (pencil and paper, listed as an assumption); what the
 * solver decides is that carries, digit positions, operand swap, zero skipping and the final length are right. */
#define PP(x, i, y, j)  (((bs_u) ((BIntD) (x)->placev[i] * (BIntD) (y)->placev[j])) << (32 * ((i) + (j))))
#define DG(x, i)        ((Length) (i) < (x)->placec)
static bs_u sb_product(BInt a, BInt b)		/* a, b <= 2 digits */
{
	bs_u m = 0;
	if (DG(a, 0) && DG(b, 0)) m += PP(a, 0, b, 0);
	if (DG(a, 1) && DG(b, 0)) m += PP(a, 1, b, 0);
	if (DG(a, 0) && DG(b, 1)) m += PP(a, 0, b, 1);
	if (DG(a, 1) && DG(b, 1)) m += PP(a, 1, b, 1);
	return m;
}
static bs_u sb_product_s(BInt a, BIntS d)	/* a <= 3 digits */
{
	bs_u m = 0; int i;
	for (i = 0; i < 3; i++) if (DG(a, i)) m += ((bs_u) ((BIntD) a->placev[i] * (BIntD) d)) << (32 * i);
	return m;
}
/* -DSB_D=<digit>: the single-digit multiplier is a constant of the job; -DSB_B0/-DSB_B1: so are the digits of iintTimes'
 * second operand (a symbolic 32x32-bit multiplier is out of reach of SAT and z3 even against this spec: 900 s) */
#ifdef SB_D
#define SB_D_DECL BIntS d = (BIntS) (SB_D)
#else
#define SB_D_DECL INPUT(BIntS, d)
#endif
void h_iintTimes_schoolbook(void)
{
	INPUT(BIntS, sent); g_sent = sent;
	IN_STORED(a); IN_STORED(b); IN_STORED(r);
#ifdef SB_B0
	if (b->placea > 0) b->placev[0] = (BIntS) (SB_B0);
	if (b->placea > 1) b->placev[1] = (BIntS) (SB_B1);
#endif
	ASSUME(a->placec <= a->placea && b->placec <= b->placea && a->placec <= 2 && b->placec <= 2);
	ASSUME(BS_WF_ST(a) && BS_WF_ST(b) && !a->isNeg && !b->isNeg);
	ASSUME(r->placea == a->placec + b->placec && r->placec == r->placea);      /* bintAllocPlaces(ac + bc), as bintTimes does */
	bs_u want = sb_product(a, b);
	iintTimes(r, a, b);
#ifndef CANARY_iintTimes
	CHECK("iintTimes: magnitude == schoolbook sum of the digit products", BS_MAG(r) == want);
#else	/* canary: the top carry digit is lost */
	CHECK("iintTimes canary", BS_MAG(r) == (want & ((((bs_u) 1) << 64) - 1)));
#endif
	CHECK("iintTimes: no leading zero digit", r->placec <= r->placea && (r->placec == 0 || BS_TOP_NZ(r)));
	CHECK("iintTimes: no digit stored beyond the capacity", SLACK_OK(r) && SLACK_OK(a) && SLACK_OK(b));
	VREACH();
}
#define BODY_iintTimesS(PLUS) \
{ \
	INPUT(BIntS, sent); g_sent = sent; \
	IN_STORED(a); IN_STORED(r0); INPUT(int, alias); SB_D_DECL; INPUT(BIntS, c); \
	BInt r = alias ? a : r0; \
	ASSUME(a->placec <= a->placea && a->placec <= 3 && BS_WF_ST(a) && !a->isNeg && a->placec >= 1 && BS_TOP_NZ(a)); \
	ASSUME(r->placea >= a->placea && r->placea >= a->placec + 1 && r->placec <= r->placea);	/* callers leave room for the carry digit */ \
	ASSUME(d != 0);		/* d == 0 goes through xintCopyInI, which may reallocate (the unit's own '!!!' remark) */ \
	bs_u want = sb_product_s(a, d) + ((PLUS) ? (bs_u) c : 0); \
	if (PLUS) iintTimesPlusS(r, a, d, c); else iintTimesS(r, a, d); \
	CHECK("iintTimes[Plus]S: magnitude == schoolbook sum of the digit products (+ c)", BS_MAG(r) == want); \
	CHECK("iintTimes[Plus]S: no leading zero digit", r->placec <= r->placea && r->placec >= 1 && BS_TOP_NZ(r)); \
	CHECK("iintTimes[Plus]S: no digit stored beyond the capacity", SLACK_OK(r) && SLACK_OK(a)); \
	VREACH(); \
}
void h_iintTimesS_schoolbook(void)     BODY_iintTimesS(0)
void h_iintTimesPlusS_schoolbook(void) BODY_iintTimesS(1)

void h_iintDivide_wf(void)
{
	INPUT(BIntS, sent); g_sent = sent;
	IN_STORED(u); IN_STORED(v); IN_STORED(q); IN_STORED(r);
	ASSUME(u->placec <= u->placea && v->placec <= v->placea && u->placec <= 3 && v->placec <= 2);
	ASSUME(BS_WF_ST(u) && BS_WF_ST(v) && !u->isNeg && !v->isNeg && BS_TOP_NZ(v) && BS_TOP_NZ(u));
	ASSUME(u->placec >= v->placec);
	/* bintDivide: n = Placec(b), m = Placec(a) - n; q = bintAllocPlaces(m+1), r = bintAllocPlaces(n+m+1) */
	ASSUME(q->placea == u->placec - v->placec + 1 && q->placec == q->placea);
	ASSUME(r->placea == u->placec + 1 && r->placec == r->placea);
	ASSUME(v->placea > v->placec);      /* iintTimesS(v, v, d) may need a carry digit only by value; give it room */
	iintDivide(q, r, u, v);
	CHECK("iintDivide: quotient and remainder in result form",
	      q->placec <= q->placea && (q->placec == 0 || BS_TOP_NZ(q)) && r->placec <= r->placea && (r->placec <= 1 || BS_TOP_NZ(r)));
	CHECK("iintDivide: no digit stored beyond the capacity", SLACK_OK(q) && SLACK_OK(r) && SLACK_OK(u) && SLACK_OK(v));
	VREACH();
}

/* ---- quotient and remainder for a CONSTANT two-digit divisor (one job per divisor) ---------------------
 * a = q*b + r, 0 <= r < b, on the real iintDivide (Knuth D: normalisation, qhat estimate and its two corrections,
 * multiply-subtract, add-back).  With the divisor a constant of the job every multiplier and divider in the unit and
 * in the spec has one constant operand, which the SAT back end can decide; a symbolic divisor cannot be (the single step
 * nh*B+nl == q*d+r is already undecided).  Dividend: every value of <= 3 digits (so 1 or 2 quotient digits). */
#ifndef DV_B0
#define DV_B0 0xFFFFFFFFU
#define DV_B1 0x80000000U
#endif
void h_iintDivide_const(void)
{
	INPUT(BIntS, sent); g_sent = sent;
	IN_STORED(u); IN_STORED(v); IN_STORED(q); IN_STORED(r);
	ASSUME(u->placec <= u->placea && u->placec <= 3 && u->placec >= 2 && BS_WF_ST(u) && !u->isNeg && BS_TOP_NZ(u));
	ASSUME(v->placea >= 3 && !v->isNeg);	/* room for a carry digit during normalisation (by value there is none) */
	v->placec = 2; v->placev[0] = (BIntS) (DV_B0); v->placev[1] = (BIntS) (DV_B1);
	/* bintDivide: n = Placec(b), m = Placec(a) - n; q = bintAllocPlaces(m+1), r = bintAllocPlaces(n+m+1) */
	ASSUME(q->placea == u->placec - v->placec + 1 && q->placec == q->placea);
	ASSUME(r->placea == u->placec + 1 && r->placec == r->placea);
	ASSUME(!q->isNeg && !r->isNeg);		/* bintAllocPlaces clears the sign (iintDivide compares its work copy in r with v through bintLT) */
	bs_u mu = BS_MAG(u), mv = (((bs_u) (DV_B1)) << 32) | (bs_u) (DV_B0);
	iintDivide(q, r, u, v);
	/* bintDivide then strips leading zeros of both results; do the same before reading the values */
	while (q->placec > 0 && q->placev[q->placec - 1] == 0) q->placec--;
	while (r->placec > 0 && r->placev[r->placec - 1] == 0) r->placec--;
	bs_u mq = q->placec == 0 ? 0 : BS_MAG(q), mr = r->placec == 0 ? 0 : BS_MAG(r);
#ifndef CANARY_iintDivide
	CHECK("iintDivide: a == q*b + r", mq * mv + mr == mu && mq <= (((bs_u) 1) << 64) - 1);
	CHECK("iintDivide: 0 <= r < b", mr < mv);
#else	/* canary: remainder may equal the divisor */
	CHECK("iintDivide canary", mq * mv + mr == mu + mv);
#endif
	CHECK("iintDivide: no digit stored beyond the capacity", SLACK_OK(q) && SLACK_OK(r) && SLACK_OK(u) && SLACK_OK(v));
	VREACH();
}

#ifdef NATIVE_REPLAY
V_NATIVE_MAIN(ENTRY)
#endif
