/* C11 memory-safety harnesses for ANY number of digits: the index loops of the real bigint.c carry loop
 * contracts spliced from contracts/loops/bigint.json; objects are allocated exactly as bintAllocPlaces does
 * (fullsizeof(struct bint, placea, digit) bytes, placea symbolic), so --bounds-check ("dynamic object upper
 * bound") is exact with respect to the capacity the code believes in.  Loop bodies are havocked, so no VALUE
 * is claimed here (values: the class-B jobs of bigint_h.c); the code's own assert()s on values (e.g. the final
 * borrow in iintMinus) are visible refusals (C11_BUG_DIAG), not obligations. */
#include "bigint.c"
#define C11_BIG_ALLOC
#define C11_BUG_DIAG
#include "bint_common.c"

#define MAXP 1024       /* object-size cap of the harness (CBMC prints whole objects in the counterexample trace of the
			 * reachability twin: 2^20 digits take minutes to print); NOT a loop bound - the loops are closed by contracts */
#define IN_ANY(x) \
	INPUT(int, x##_neg); INPUT(Length, x##_pa); INPUT(Length, x##_pc); \
	ASSUME(x##_pa <= MAXP && x##_pc <= x##_pa && (x##_neg == 0 || x##_neg == 1)); \
	BInt x = mk_stored_any(x##_neg, x##_pa, x##_pc, (const BIntS *) 0, 0)
#define HDR_OK(r)  ((r)->placec <= (r)->placea)

void m_bintEQ(void)
{
	IN_ANY(a); IN_ANY(b);
	Bool r = bintEQ(a, b);
	CHECK("bintEQ returns a truth value", r == 0 || r == 1);
	VREACH();
}
void m_bintLT(void)
{
	IN_ANY(a); IN_ANY(b);
	ASSUME(a->placec >= 1 && b->placec >= 1);
	Bool r = bintLT(a, b);
	CHECK("bintLT returns a truth value", r == 0 || r == 1);
	VREACH();
}
void m_bintGT(void)
{
	IN_ANY(a); IN_ANY(b);
	ASSUME(a->placec >= 1 && b->placec >= 1);
	Bool r = bintGT(a, b);
	CHECK("bintGT returns a truth value", r == 0 || r == 1);
	VREACH();
}
void m_bintCopy(void)
{
	IN_ANY(a);
	BInt r = bintCopy(a);
	CHECK("bintCopy: header of the copy", r != a && r->placec == a->placec && r->placea >= r->placec && r->isNeg == a->isNeg);
	VREACH();
}
void m_iintAbs(void)
{
	IN_ANY(a); IN_ANY(r0); INPUT(int, alias);
	BInt r = alias ? a : r0;
	ASSUME(a->placec >= 1 && r->placea >= a->placec);          /* the code's own assert */
	iintAbs(r, a);
	CHECK("iintAbs: header", HDR_OK(r) && r->isNeg == 0);
	VREACH();
}
void m_iintNegate(void)
{
	IN_ANY(a); IN_ANY(r0); INPUT(int, alias);
	BInt r = alias ? a : r0;
	ASSUME(a->placec >= 1 && r->placea >= a->placec);
	iintNegate(r, a);
	CHECK("iintNegate: header", HDR_OK(r));
	VREACH();
}
/* capacity for the carry digit: Placea(r) > Placec(a) (bintPlus allocates bitlength+1 bits; whether the
 * carry can occur when that rounds to Placec(a) digits is a VALUE question, decided for <= 3 digits only) */
void m_iintPlus(void)
{
	IN_ANY(a); IN_ANY(b); IN_ANY(r0); INPUT(int, alias);
	BInt r = alias == 1 ? a : alias == 2 ? b : r0;
#ifndef CANARY_mem_iintPlus
	ASSUME(!a->isNeg && !b->isNeg && a->placec >= b->placec && b->placec >= 1 && r->placea > a->placec);
#else
	ASSUME(!a->isNeg && !b->isNeg && a->placec >= b->placec && b->placec >= 1 && r->placea >= a->placec);
#endif
	iintPlus(r, a, b);
	CHECK("iintPlus: header", HDR_OK(r));
	VREACH();
}
void m_iintMinus(void)
{
	IN_ANY(a); IN_ANY(b); IN_ANY(r0); INPUT(int, alias);
	BInt r = alias == 1 ? a : alias == 2 ? b : r0;
	ASSUME(!a->isNeg && !b->isNeg && a->placec >= b->placec && b->placec >= 1 && r->placea >= a->placec);
	iintMinus(r, a, b);
	CHECK("iintMinus: header", HDR_OK(r));
	VREACH();
}
void m_iintTimesS(void)
{
	IN_ANY(a); IN_ANY(r0); INPUT(int, alias); INPUT(BIntS, d);
	BInt r = alias ? a : r0;
	ASSUME(a->placec >= 1 && r->placea >= a->placea && r->placea > a->placec && d != 0);
	iintTimesS(r, a, d);
	CHECK("iintTimesS: header", HDR_OK(r));
	VREACH();
}
void m_iintTimesPlusS(void)
{
	IN_ANY(a); IN_ANY(r0); INPUT(int, alias); INPUT(BIntS, d); INPUT(BIntS, c);
	BInt r = alias ? a : r0;
	ASSUME(a->placec >= 1 && r->placea >= a->placea && r->placea > a->placec && d != 0);
	iintTimesPlusS(r, a, d, c);
	CHECK("iintTimesPlusS: header", HDR_OK(r));
	VREACH();
}
void m_iintDivideS(void)
{
	IN_ANY(a); IN_ANY(q0); INPUT(int, alias); INPUT(BIntS, d);
	BInt q = alias ? a : q0;
	BIntS rem;
	ASSUME(a->placec >= 1 && q->placea >= a->placec && d != 0);
	iintDivideS(q, &rem, a, d);
	CHECK("iintDivideS: header", HDR_OK(q));
	VREACH();
}
void m_xintNeeds(void)
{
	IN_ANY(b); INPUT(Length, bitc);
	ASSUME(bitc <= 32UL * MAXP);
	BInt r = xintNeeds(b, bitc);
	CHECK("xintNeeds: capacity and header", r->placea * 32 >= bitc && HDR_OK(r) && r->placec == b->placec);
	VREACH();
}

#ifdef NATIVE_REPLAY
V_NATIVE_MAIN(ENTRY)
#endif
