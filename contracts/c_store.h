/*
 * Contracts for aldor/aldor/src/store.c (property C10).
 */
#ifndef C_STORE_H
#define C_STORE_H

#ifdef NATIVE_REPLAY    /* the verifier's pointer primitives, for the native replay of the same macro texts */
#define __CPROVER_same_object(a, b)   1
#define __CPROVER_POINTER_OFFSET(p)   ((unsigned long) (p))
#endif

/* ---- byteGetIfCan(alignment, nbytes, &got): memory from the OS, rounded up to the alignment ------
 * Call sites: pgmapAlloc (alignment PgSize, got == NULL, uses nbytes bytes) and pagesAdd (alignment
 * PgSize, uses got rounded DOWN to a multiple of PgSize); both ask for a whole number of pages.  So: the result is 0 or an aligned pointer
 * with at least nbytes usable bytes, and at least rounddown(got) usable bytes when got is reported.
 * V_USABLE(r) = bytes from r to the end of the block the OS handed out (ghost g_os_base/g_os_size). */
char   *g_os_base;      /* ghost: first byte of the last block obtained from the OS */
ULong   g_os_size;      /* ghost: its size in bytes                             */
ULong   g_os_req;       /* ghost: bytes asked for                               */
#ifndef V_OS_BLOCK_MAX  /* largest request the OS model serves: 2^48 bytes unless a job fixes the block size */
#define V_OS_BLOCK_MAX (1UL << 48)
#endif
#define V_RDOWN(n,a)   ((n) - (n) % (a))
#define V_USABLE(r)    ((long) g_os_size - (long) ((char *) (r) - g_os_base))
#define PRE_byteGetIfCan(al, nb, pg)   ((al) == PgSize && (nb) % PgSize == 0 && (nb) <= V_OS_BLOCK_MAX - PgSize)
#ifndef CANARY_byteGetIfCan
#define POST_got_fits(al, r, pg)  (V_RDOWN(*(pg), al) <= (ULong) V_USABLE(r))
#else   /* canary: claims every byte reported in *got is usable, without the caller's rounding */
#define POST_got_fits(al, r, pg)  (*(pg) <= (ULong) V_USABLE(r))
#endif
#define POST_byteGetIfCan(al, nb, pg, r) ((r) == 0 || ( \
	__CPROVER_same_object((r), g_os_base) && (char *) (r) >= g_os_base && \
	__CPROVER_POINTER_OFFSET(r) % (al) == 0 && \
	V_USABLE(r) >= (long) (nb) && \
	((pg) == 0 || (V_RDOWN(*(pg), al) >= (nb) && POST_got_fits(al, r, pg)))))
Pointer c_byteGetIfCan(Length alignment, ULong nbytes, ULong *pnbytesGot)
	__CPROVER_requires(PRE_byteGetIfCan(alignment, nbytes, pnbytesGot))
	__CPROVER_requires(pnbytesGot == 0 || __CPROVER_w_ok(pnbytesGot, sizeof(ULong)))
	__CPROVER_ensures(POST_byteGetIfCan(alignment, nbytes, pnbytesGot, __CPROVER_return_value))
	/* the same fact in the verifier's own terms, so that callers can use the memory when this contract
	 * replaces the call: the usable bytes are valid memory that nobody else holds */
	__CPROVER_ensures(__CPROVER_return_value == 0 || __CPROVER_is_fresh(__CPROVER_return_value,
		pnbytesGot != 0 ? V_RDOWN(*pnbytesGot, alignment) : nbytes))
	__CPROVER_assigns(stoBytesOwn, g_os_base, g_os_size, g_os_req)
	__CPROVER_assigns(pnbytesGot != 0: *pnbytesGot);

/* ---- size-class tables built by stoInit: n <= FixedSizeMax, k,i < FixedSizeCount, j < PgSize are ghosts ---- */
#define POST_sizefor_ge(n)        (fixedSizeFor[n] >= (n))
#define POST_sizefor_index(n)     (fixedSizeIndexFor[n] < FixedSizeCount && \
				   fixedSizeFor[n] == fixedSize[fixedSizeIndexFor[n]])
#ifndef CANARY_sizefor
#define POST_sizefor_smallest(n,k) (fixedSize[k] >= (n) ? fixedSize[k] >= fixedSizeFor[n] : 1)
#else   /* canary: off by one -- claims no class can even be equal to the chosen one */
#define POST_sizefor_smallest(n,k) (fixedSize[k] >= (n) ? fixedSize[k] >  fixedSizeFor[n] : 1)
#endif
/* what the rest of the allocator needs of the class table itself */
#define POST_sizeclasses(k)       (fixedSize[k] % alignof(MostAlignedType) == 0 && fixedSize[k] >= sizeof(FxMem) && \
				   fixedSize[k] <= FixedSizeMax && \
				   ((k) + 1 < FixedSizeCount ? fixedSize[k] < fixedSize[(k) + 1] : fixedSize[k] == FixedSizeMax))

/* ---- division by lookup: a class is either sizeof(Pointer) << log (log >= 0) or has its own table ---- */
#define V_IS_POW2(x)              ((x) != 0 && ((x) & ((x) - 1)) == 0)
#define V_DIVTAB(i)               (-(fixedSizeLog[i] + 1))
#define POST_sizelog(i)           (fixedSizeLog[i] >= 0 \
					? fixedSize[i] == (sizeof(Pointer) << fixedSizeLog[i]) \
					: (!V_IS_POW2(fixedSize[i]) && V_DIVTAB(i) >= 0 && \
					   V_DIVTAB(i) < (int) (sizeof(stoDivTable) / sizeof(stoDivTable[0]))))
#define POST_divtab_distinct(i,i2) ((i) == (i2) || fixedSizeLog[i] >= 0 || fixedSizeLog[i2] >= 0 || fixedSizeLog[i] != fixedSizeLog[i2])
#ifndef CANARY_divtable
#define POST_divtable(i,j)        (fixedSizeLog[i] >= 0 || stoDivTable[V_DIVTAB(i)][j] == (long) ((j) / fixedSize[i]))
#else   /* canary: rounds the quotient up instead of down */
#define POST_divtable(i,j)        (fixedSizeLog[i] >= 0 || stoDivTable[V_DIVTAB(i)][j] == (long) (((j) + fixedSize[i] - 1) / fixedSize[i]))
#endif


/* ---- pgmapFindFree(count): first run of count free pages, or -1 ---------------------------------
 * Module invariant on entry and exit: 0 <= pgmapFoundFreeLastTime <= pgMapSize (it is only ever set to a
 * found index or 0, and pgMapSize never shrinks).  The function indexes with int, so the page map must
 * have fewer than 2^31 entries; V_PGMAP_MAX = 2^30 pages is a 4 TiB heap.  g_k < count is the ghost. */
#define V_PGMAP_MAX               (1UL << 30)
#ifndef V_COUNT_ANY
#define V_COUNT_MAX               ((1UL << 30) - 1)
#else   /* the call sites (pagesFind <- pagesGet <- pieceGetMixed <- stoAlloc(ULong)) bound nothing */
#define V_COUNT_MAX               (~0UL)
#endif
#define V_LAST_OK                 (0 <= pgmapFoundFreeLastTime && (Length) pgmapFoundFreeLastTime <= pgMapSize)
#define PRE_pgmapFindFree(count)  (pgMapSize <= V_PGMAP_MAX && V_LAST_OK && (count) <= V_COUNT_MAX)
#ifndef CANARY_pgmapFindFree
#define V_RUN_END(r,count)        ((Length) (r) + (count) <= pgMapSize)
#else   /* canary: wrong bound in the page search -- claims there is even a spare page after the run */
#define V_RUN_END(r,count)        ((Length) (r) + (count) <  pgMapSize)
#endif
#define POST_pgmapFindFree(count, r) (V_LAST_OK && ((r) == -1 || ((r) >= 0 && V_RUN_END(r, count) && \
				   (g_k < (count) ? pgMap[(Length) (r) + g_k] == PgFree : 1))))
int c_pgmapFindFree(Length count)
	__CPROVER_requires(PRE_pgmapFindFree(count))
	__CPROVER_requires(__CPROVER_r_ok(pgMap, pgMapSize))
	__CPROVER_ensures(POST_pgmapFindFree(count, __CPROVER_return_value))
	__CPROVER_assigns(pgmapFoundFreeLastTime);

/* ---- section layout: | head | info[nq] | gap | data: nq quanta of qmSize bytes | -------------------
 * sectQmCount's call site is sectPrepare, which insists on npages < 2^16; quanta are a fixed class
 * (>= sizeof(Pointer)) or MixedSizeQuantum. */
#define PRE_sectQmCount(pc, qs)   ((pc) >= 1 && (pc) < (1UL << 16) && (qs) >= sizeof(Pointer) && (qs) <= MixedSizeQuantum)
#ifndef CANARY_sectQmCount
#define V_SECT_FITS(pc, qs, r)    (SectionHeadSize + (r) * sizeof(QmInfo) + (r) * (qs) <= (pc) * PgSize)
#else   /* canary: forgets the per-quantum info byte, so info may overlap data */
#define V_SECT_FITS(pc, qs, r)    (SectionHeadSize + (r) * (qs) <= (pc) * PgSize && \
				   SectionHeadSize + (r) * sizeof(QmInfo) + (r) * (qs) > (pc) * PgSize)
#endif
#define POST_sectQmCount(pc, qs, r) (V_SECT_FITS(pc, qs, r) && \
				   SectionHeadSize + ((r) + 1) * sizeof(QmInfo) + ((r) + 1) * (qs) > (pc) * PgSize)
Length c_sectQmCount(Length pageCount, Length qmSize)
	__CPROVER_requires(PRE_sectQmCount(pageCount, qmSize))
	__CPROVER_ensures(POST_sectQmCount(pageCount, qmSize, __CPROVER_return_value))
	__CPROVER_assigns();

/* layout of a prepared section x whose data starts d bytes after the section start */
#define LAYOUT_info_before_data(x, d)        (SectionHeadSize + (x)->qmCount * sizeof(QmInfo) <= (d))
#define LAYOUT_data_ends_at_page_end(x,d,np) ((d) + (x)->qmCount * (Length) (x)->qmSize == (np) * PgSize)
#ifndef CANARY_layout
#define LAYOUT_data_aligned(d)               ((d) % alignof(MostAlignedType) == 0)
#else   /* canary: demands page alignment of the first quantum */
#define LAYOUT_data_aligned(d)               ((d) % PgSize == 0)
#endif
/* the index stoAlloc/stoFree compute for a pointer o bytes into the data area */
#define LAYOUT_qm_index(x, o)     ((x)->qmLog ? (Length) ((long) (o) >> (x)->qmLog) : (Length) stoDivTable[(x)->qmDiv][o])

/* ---- sectPrepare(p, npages, sz, isFixed): header, info bytes and data of a fresh section -------------
 * Call sites: piecesGetFixed (1 page, sz a class, fixed) and pieceGetMixed (npages >= MixedSizePgGroup, sz ==
 * MixedSizeQuantum, mixed).  The function's own assert admits npages < 2^16; the header field pgCount is a
 * short, which holds npages <= 32767 (sections of less than 128 MiB).  g_k is the ghost quantum index. */
#ifndef V_NPAGES_ASSERT
#define V_NPAGES_MAX              32767UL
#else
#define V_NPAGES_MAX              ((1UL << 16) - 1)
#endif
#define V_SZIX(sz)                ((sz) <= FixedSizeMax ? (sz) : 0)
#define PRE_sectPrepare(p, np, sz, fx) ((np) >= 1 && (np) <= V_NPAGES_MAX && PRE_sectQmCount(np, sz) && \
				   (sz) % alignof(MostAlignedType) == 0 && ((fx) == 0 || (fx) == 1) && \
				   fixedSizeIndexFor[V_SZIX(sz)] < FixedSizeCount /* POST_sizefor_index, proved on stoInit */)
#define V_SECT_D(x)               ((Length) ((char *) (x)->data - (char *) (x)))
#define POST_sectPrepare(p, np, sz, fx, x) ((char *) (x) == (char *) (p) && \
				   (x)->qmSize == (short) (sz) && ((x)->isFixed != 0) == ((fx) != 0) && \
				   POST_sectQmCount(np, sz, (x)->qmCount) && __CPROVER_same_object((x)->data, (p)) && \
				   LAYOUT_info_before_data(x, V_SECT_D(x)) && LAYOUT_data_ends_at_page_end(x, V_SECT_D(x), np) && \
				   LAYOUT_data_aligned(V_SECT_D(x)))
#define POST_sectPrepare_pgCount(np, x) ((Length) (x)->pgCount == (np))
#define POST_sectPrepare_tags(fx, x) (!stoMustTag || g_k >= (x)->qmCount || \
				   (x)->info[g_k] == (g_k == 0 || (fx) ? QmInfoMake0(QmFreeFirst) : QmInfoMake0(QmFollow)))
Section *c_sectPrepare(Page *p, Length npages, Length sz, int isFixed)
	__CPROVER_requires(PRE_sectPrepare(p, npages, sz, isFixed))
	__CPROVER_requires(__CPROVER_is_fresh(p, npages * PgSize))
	__CPROVER_ensures(POST_sectPrepare(p, npages, sz, isFixed, __CPROVER_return_value))
	__CPROVER_ensures(POST_sectPrepare_pgCount(npages, __CPROVER_return_value))
	__CPROVER_ensures(POST_sectPrepare_tags(isFixed, __CPROVER_return_value))
	__CPROVER_assigns(__CPROVER_object_whole(p));

#endif
