/*
 * Contracts for aldor/aldor/src/emit.c, lib.c:libClose/libPutHeader/libPutSection and
 * file.c:fileMustOpen  (property C18).
 *
 * Property: "Whenever the compiler exits with status 0, every output file requested on the
 * command line exists and is complete; if any write, flush or close of an output fails
 * (device full, unwritable target), the compiler reports an error and exits non-zero."
 *
 * Per writer W of output kind K the property gives (ghost state: harness/C18/iomodel.h):
 *
 *   clause 1  POST_io_reported         g_io_failed ==> g_reported
 *             a failing write/flush/close inside W is reported (comsgError/comsgFatal/
 *             compFileError/exitFailure) -- with C07's contract on compFilesLoop/main
 *             that gives a non-zero exit.
 *   clause 2  POST_done_only_complete  emitDone[K] ==> !g_io_failed
 *             emit.c tracks "this requested output has been produced" in emitDone[K]
 *             (emitInfoFree warns "not creating file" for a needed kind that is not done);
 *             W may claim K done only for a completely written and closed file.
 *   clause 3  POST_success_complete    !g_io_failed ==> emitDone[K] && every stream W opened
 *             is closed && at least one stream was opened
 *             (exit 0 ==> the file exists and is complete: it was created, closed, marked).
 *
 * The ensures clauses are ALWAYS in this order, so that the verifier's obligation ids
 * <fn>.postcondition.1/.2/.3 mean clause 1/2/3 for every writer.
 *
 * Preconditions come from the call sites in axlcomp.c (compPhase*): a live EmitInfo, no
 * output of this kind produced yet, no stream open, nothing failed or reported so far.
 */
#ifndef C_EMIT_H
#define C_EMIT_H

#define C18_GHOST_FRAME \
	g_nopen, g_io_failed, g_reported, g_open_failed, g_lib_file, g_jco_stream, g_diag, \
	__CPROVER_object_whole(g_open), __CPROVER_object_whole(g_err), __CPROVER_object_whole(v_stream)

#define POST_io_reported		(!g_io_failed || g_reported)

/* ---- file.c: the open side -------------------------------------------------
 * fileMustOpen(fn, mode) with the default handler or with axlcomp.c:compFileError installed:
 * it returns an OPEN stream, or the failure is reported and it does not return -- it never hands
 * a NULL stream to a writer.  (The writers' harnesses use exactly this as their open model.) */
#define PRE_fileMustOpen \
	(g_reported == 0 && g_open_failed == 0 && g_nopen == 0 && V_ALL_QUIET())
#define POST_fileMustOpen(r) \
	((r) != 0 && (r) == &v_stream[0] && g_open[0] && g_nopen == 1 && !g_open_failed)
FILE *c_fileMustOpen(FileName fn, IOMode mode)
	__CPROVER_requires(PRE_fileMustOpen)
	__CPROVER_ensures(POST_fileMustOpen(__CPROVER_return_value))
	__CPROVER_assigns(C18_GHOST_FRAME);
/* file.c:fileClose(stream, fn): closes the stream exactly once; if it RETURNS, no write/flush on the stream had
 * failed and the close itself succeeded -- otherwise the failure went to the error handler (reported, no return) */
#define PRE_fileClose(f)   ((f) == &v_stream[0] && g_open[0] && g_nopen == 1 && g_reported == 0)
#define POST_fileClose     (!g_open[0] && !g_err[0] && !g_io_failed && g_reported == 0)
void c_fileClose(FILE *stream, FileName fn)
	__CPROVER_requires(PRE_fileClose(stream))
	__CPROVER_ensures(POST_fileClose)
	__CPROVER_assigns(C18_GHOST_FRAME);
/* replaced (ASSUMED): creates missing directories, performs no stream I/O; if it could not, fopen fails */
void c_fileEnsureDirectory(FileName fileName)
	__CPROVER_requires(1)
	__CPROVER_ensures(1)
	__CPROVER_assigns();

#ifndef C_EMIT_NO_LIB
/* ---- lib.c ---------------------------------------------------------------
 * libClose(lib) for a library opened for writing: writes the header (seek + write + flush) and
 * closes the file.  Any failure on lib's stream -- including one left pending in the stream's
 * error indicator by the section writers libPut* -- must be reported. */
/* the ghost flags are sticky and no stream is opened (needed where the contract replaces the call) */
#define POST_ghost_monotone \
	((!__CPROVER_old(g_io_failed) || g_io_failed) && (!__CPROVER_old(g_reported) || g_reported) && \
	 g_nopen == __CPROVER_old(g_nopen))
/* call site (emitTheIntermed): lib = libWrite(fn) = libNew(fn, rdOnly=false, fileWubOpen(fn), 0): a live
 * struct lib in write mode whose file is the one open output stream, no foam unit cached (only the
 * readers set unitb); section writers may already have failed (g_io_failed / error indicator arbitrary) */
#if defined(V_FAIL_NEVER) && !defined(C18_PENDING_ALLOWED)	/* sanity variant: no I/O failure inside libClose AND none pending from the section writers */
# define PRE_libClose_sanity	&& g_io_failed == 0
#else
# define PRE_libClose_sanity
#endif
#define PRE_libClose(lib) \
	(__CPROVER_is_fresh(lib, sizeof(*(lib))) && (lib)->rdOnly == 0 && (lib)->isOutput != 0 /* = libWrite(fn), see job lib.libWrite */ && (lib)->unitb == 0 && \
	 (lib)->file == &v_stream[0] && g_nopen == 1 && g_open[0] && !g_open[1] && !g_open[2] && !g_open[3] && \
	 g_reported == 0 && (g_io_failed ? g_err[0] : 1) /* ghost invariant of the I/O model: a failed write on the one open stream left its sticky error indicator set */ \
	 PRE_libClose_sanity)
void c_libClose(Lib lib)
	__CPROVER_requires(PRE_libClose(lib))
	__CPROVER_ensures(POST_io_reported)		/* clause 1: failed write/flush/close of the .ao is reported */
	__CPROVER_ensures(V_NOPEN_NOW() == 0)		/* clause 2: the file is closed */
	__CPROVER_ensures(POST_ghost_monotone)		/* clause 3: ghost flags are sticky */
	__CPROVER_ensures(!g_io_failed)			/* clause 4: if libClose RETURNS, no write/flush/close of the .ao failed (a failure is fatal) */
	__CPROVER_assigns(__CPROVER_object_whole(lib), C18_GHOST_FRAME);


#endif	/* C_EMIT_NO_LIB */

#ifndef C_EMIT_NO_WRITERS

#define PRE_c18_quiet \
	(g_nopen == 0 && g_io_failed == 0 && g_reported == 0 && g_open_failed == 0 && V_ALL_QUIET())

#define POST_done_only_complete(K)	(!emitDone[K] || !g_io_failed)
#ifndef CANARY_success_complete
#define POST_success_complete(K)	(g_io_failed || (emitDone[K] && V_NOPEN_NOW() == 0 && g_nopen >= 1))
#else	/* canary: claims the writer leaves its stream open on success */
#define POST_success_complete(K)	(g_io_failed || (emitDone[K] && V_NOPEN_NOW() == 1 && g_nopen >= 1))
#endif

/* emitInfoNew: fname[FTYPENO_SRC] = fnameCopy(srcfn) -- a FileName with three NUL-terminated parts;
 * flist is a (here: empty, as emitInfoNew leaves it) list of extra C files */
#define PRE_str8(s)	(__CPROVER_is_fresh(s, 8) && (s)[7] == 0)
#define PRE_emit_finfo(finfo) \
	(__CPROVER_is_fresh(finfo, sizeof(*(finfo))) && \
	 __CPROVER_is_fresh((finfo)->fname[FTYPENO_SRC], sizeof(struct fileName)) && \
	 PRE_str8((finfo)->fname[FTYPENO_SRC]->partv[FNAME_DIR]) && \
	 PRE_str8((finfo)->fname[FTYPENO_SRC]->partv[FNAME_NAME]) && \
	 PRE_str8((finfo)->fname[FTYPENO_SRC]->partv[FNAME_TYPE]) && \
	 (finfo)->flist == 0)
/* writers of a LIST of files (Java classes, C parts): an empty list creates no file */
#define POST_success_complete_list(K)	(g_io_failed || (emitDone[K] && V_NOPEN_NOW() == 0))

#define PRE_emit_writer(finfo, K) \
	(PRE_emit_finfo(finfo) && PRE_c18_quiet && !emitDone[K])

#define EMIT_WRITER_CLAUSES_(finfo, K, POST3) \
	__CPROVER_requires(PRE_emit_writer(finfo, K)) \
	__CPROVER_ensures(POST_io_reported) \
	__CPROVER_ensures(POST_done_only_complete(K)) \
	__CPROVER_ensures(POST3(K)) \
	__CPROVER_assigns(__CPROVER_object_whole(finfo), __CPROVER_object_whole(emitDone), C18_GHOST_FRAME)
#define EMIT_WRITER_CLAUSES(finfo, K)		EMIT_WRITER_CLAUSES_(finfo, K, POST_success_complete)
#define EMIT_LISTWRITER_CLAUSES(finfo, K)	EMIT_WRITER_CLAUSES_(finfo, K, POST_success_complete_list)

/* ---- emit.c writers ------------------------------------------------------ */
void c_emitTheIncluded(EmitInfo finfo, SrcLineList sll)		EMIT_WRITER_CLAUSES(finfo, FTYPENO_INCLUDED);
void c_emitTheAbSyn(EmitInfo finfo, AbSyn absyn)		EMIT_WRITER_CLAUSES(finfo, FTYPENO_ABSYN);
void c_emitTheOldAbSyn(EmitInfo finfo, AbSyn absyn)		EMIT_WRITER_CLAUSES(finfo, FTYPENO_OLDABSYN);
void c_emitTheSymbolExpr(EmitInfo finfo, SymeList symes, AbSyn macs) EMIT_WRITER_CLAUSES(finfo, FTYPENO_SYMEEXPR);
void c_emitTheAnnotatedAbSyn(EmitInfo finfo, SExpr whole)	EMIT_WRITER_CLAUSES(finfo, FTYPENO_ANNABS);
void c_emitTheFoamExpr(EmitInfo finfo, Foam foam)		EMIT_WRITER_CLAUSES(finfo, FTYPENO_FOAMEXPR);
void c_emitTheLisp(EmitInfo finfo, SExpr lispCode)		EMIT_WRITER_CLAUSES(finfo, FTYPENO_LISP);
void c_emitTheJava(EmitInfo finfo, JavaCodeList javaFiles)	EMIT_LISTWRITER_CLAUSES(finfo, FTYPENO_JAVA);
void c_emitTheC(EmitInfo finfo, CCodeList cco)			EMIT_LISTWRITER_CLAUSES(finfo, FTYPENO_C);

/* emitTheIntermed writes through lib.c: libWrite opens, libPut* write sections, libClose writes the
 * header and closes.  Modular: libClose is replaced by c_libClose below (enforced on the real
 * lib.c:libClose in its own job). */
void c_emitTheIntermed(EmitInfo finfo, SymeList sl, Foam foam, AbSyn macs) EMIT_WRITER_CLAUSES(finfo, FTYPENO_INTERMED);

/* emitTheDependencies prints to stdout only: it must not open (or leave open) any output file and
 * must not report success of any.  stdout failures are the exit path's business (not covered). */
void c_emitTheDependencies(EmitInfo finfo)
	__CPROVER_requires(PRE_emit_finfo(finfo) && PRE_c18_quiet)
	__CPROVER_ensures(POST_io_reported)
	__CPROVER_ensures(g_nopen == 0)
	__CPROVER_assigns(__CPROVER_object_whole(finfo), C18_GHOST_FRAME);

/* ---- callee of every writer, replaced (ASSUMED): the file name to use.  It performs no I/O on
 *      an output stream of the property (it may create empty lock/temp files) and hands back a
 *      FileName whose three parts are readable strings. ------------------------------------- */
FileName c_emitFileName(EmitInfo finfo, FTypeNo ft)
	__CPROVER_requires(ft < FTYPENO_LIMIT)
	__CPROVER_ensures(__CPROVER_is_fresh(__CPROVER_return_value, sizeof(struct fileName)))
	__CPROVER_ensures(__CPROVER_is_fresh(__CPROVER_return_value->partv[FNAME_DIR], 8))
	__CPROVER_ensures(__CPROVER_is_fresh(__CPROVER_return_value->partv[FNAME_NAME], 8))
	__CPROVER_ensures(__CPROVER_is_fresh(__CPROVER_return_value->partv[FNAME_TYPE], 8))
	__CPROVER_assigns(finfo->fname[ft], finfo->fname[FTYPENO_C], finfo->fname[FTYPENO_AXLMAINC], finfo->fnameTempV);

#endif	/* C_EMIT_NO_WRITERS */
#endif
