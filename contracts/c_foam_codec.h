/*
 * Contracts / spec functions for the FOAM byte codec of aldor/aldor/src/foam.c (properties C05 and C17).
 *
 * 1. foamSIntReduce (C05: "the portable re-expression of machine integers wider than 31 bits must denote
 *    the same value").  Denotation of the trees it may return, written from the meaning of the builtins
 *    (two's-complement 64-bit machine integers; ShiftUp by a count in 0..63; Or bitwise; Negate = 0 - x mod 2^64):
 *          [[ SInt n ]]                 = n
 *          [[ BCall SIntShiftUp a b ]]  = [[a]] * 2^[[b]]  mod 2^64      (0 <= [[b]] < 64)
 *          [[ BCall SIntOr a b ]]       = [[a]] | [[b]]
 *          [[ BCall SIntNegate a ]]     = - [[a]]          mod 2^64
 *    POST: [[ foamSIntReduce(SInt v) ]] == v for all 2^64 v, every SInt leaf of the result fits the
 *    4-byte form (bufIsSInt), and the argument node is not modified.
 *
 * 2. FOAM_PUT_INT / FOAM_GET_INT formats:  format 0 = 4 bytes (ENC_4), format 1 = 1 byte (ENC_1),
 *    format f >= 2 (STD_FORMS) = no bytes, the value f - STD_FORMS is carried in the tag byte.
 *    Domain on which PUT then GET is the identity (as int): format 0: int32; format 1: 0..255;
 *    format f >= 2: exactly the value f - 2.
 *
 * 3. Tag byte: tag' = tag + format * FFO_SPAN for tags >= FFO_ORIGIN; a decoder must check
 *    FOAM_START <= tag < FOAM_LIMIT BEFORE indexing foamInfoTable (C17).
 */
#ifndef C_FOAM_CODEC_H
#define C_FOAM_CODEC_H

#define SPEC_SIntShiftUp(a, b)  ((long)((unsigned long)(a) << (b)))
#define SPEC_SIntOr(a, b)       ((long)((unsigned long)(a) | (unsigned long)(b)))
#define SPEC_SIntNegate(a)      ((long)(0UL - (unsigned long)(a)))
#define SPEC_FITS_SINT4(n)      ((long)(n) >= -2147483648L && (long)(n) <= 2147483647L)

/* evaluator over the REAL union foam nodes; v_ev_ok is cleared on anything outside the grammar above
 * (wrong tag, wrong arity, wrong builtin, shift count out of range, leaf not storable, depth exceeded) */
static int v_ev_ok;
#define V_EV_DEPTH 7       /* foamSIntReduce nests at most 2*(hunks-1)+1 = 5 BCalls over a leaf for 3 hunks */
#define V_EV_OP(f)   ((int)(f)->foamBCall.op)   /* the builtin tag travels through foamNew's varargs as an int */
static long v_leaf(Foam f)
{
	if (f == 0 || foamTag(f) != FOAM_SInt || foamArgc(f) != 1 || !SPEC_FITS_SINT4(f->foamSInt.SIntData)) { v_ev_ok = 0; return 0; }
	return f->foamSInt.SIntData;
}
/* the right operand of ShiftUp/Or is always a leaf in what foamSIntReduce builds: the recursion is linear */
static long v_eval(Foam f, int depth)
{
	long a, b;
	if (depth == 0 || f == 0) { v_ev_ok = 0; return 0; }
	if (foamTag(f) == FOAM_SInt) return v_leaf(f);
	if (foamTag(f) != FOAM_BCall) { v_ev_ok = 0; return 0; }
	a = v_eval(f->foamBCall.argv[0], depth - 1);
	if (V_EV_OP(f) == FOAM_BVal_SIntNegate && foamArgc(f) == 2) return SPEC_SIntNegate(a);
	if (foamArgc(f) != 3) { v_ev_ok = 0; return 0; }
	b = v_leaf(f->foamBCall.argv[1]);
	if (V_EV_OP(f) == FOAM_BVal_SIntOr) return SPEC_SIntOr(a, b);
	if (V_EV_OP(f) == FOAM_BVal_SIntShiftUp && b >= 0 && b <= 63) return SPEC_SIntShiftUp(a, b);
	v_ev_ok = 0;
	return 0;
}

/* FOAM_PUT_INT / FOAM_GET_INT domain per format */
#define SPEC_FMT_DOMAIN(fmt, v) ((fmt) == 0 ? SPEC_FITS_SINT4(v) : (fmt) == 1 ? ((long)(v) >= 0 && (long)(v) <= 255) : (long)(v) == (long)(fmt) - 2)
#define SPEC_FMT_BYTES(fmt)     ((fmt) == 0 ? 4 : (fmt) == 1 ? 1 : 0)


/* 4. Encoded length of one node WITHOUT code children, from the meaning of the argf letters (comment above
 *    foamInfoTable) and the format rules above:
 *      tag byte; if n-ary: count in format f; then per slot:
 *      t p D b : 1 byte        o : 2 bytes (1 if SMALL_BVAL_TAGS)    h : 2      w : 4
 *      X F     : 4 bytes (always format 0);  F also fixes the label format: 1 if value <= 255 else 0
 *      L       : label-format bytes        i : format-f bytes
 *      s       : format-f length n (>= 0), then n bytes
 *      f       : 6 bytes, d : 10 bytes  (and the node ends)
 *      n       : 1 sign byte, format-f count n (>= 0), then 2n bytes
 *    v_spec_len returns -1 when the bytes are not a well-formed node of that shape inside [0,argc)
 *    (field past the end, negative length/count), -2 for shapes outside this spec ('C', '!'); otherwise the
 *    exact number of bytes a reader must consume. */
#ifndef V_SPEC_MAX_SLOTS
# define V_SPEC_MAX_SLOTS 32
#endif
static int v_spec_neg;        /* set when a length/count field decodes to a negative int */
static long v_spec_int(const UByte *d, long at, long argc, int fmt, long *val)
{
	if (fmt == 0) { if (at + 4 > argc) return -1; *val = (long)(int) DEC_LE4(d + at); return 4; }
	if (fmt == 1) { if (at + 1 > argc) return -1; *val = d[at]; return 1; }
	*val = fmt - 2; return 0;
}
static long v_spec_len(const UByte *d, long argc, int labelfmt)
{
	int fmt, tag, fi; long at = 1, cnt, si, k, val; const char *argf;
	v_spec_neg = 0;
	if (argc < 1) return -1;
	tag = d[0]; fmt = tag < FOAM_VECTOR_START ? 0 : (tag - FOAM_VECTOR_START) / (FOAM_LIMIT - FOAM_VECTOR_START);
	tag = tag - fmt * (FOAM_LIMIT - FOAM_VECTOR_START);
	argf = foamInfoTable[tag - FOAM_START].argf;
	cnt = foamInfoTable[tag - FOAM_START].argc;
	if (cnt == FOAM_NARY) { k = v_spec_int(d, at, argc, fmt, &cnt); if (k < 0) return -1; if (cnt < 0) { v_spec_neg = 1; return -1; } at += k; }
	for (fi = 0, si = 0; si < cnt && si < V_SPEC_MAX_SLOTS; fi++, si++) {
		char af = argf[fi];
		if (af == '*') af = argf[--fi];
		switch (af) {
		case 't': case 'p': case 'D': case 'b': k = 1; break;
#ifdef SMALL_BVAL_TAGS
		case 'o': k = 1; break;
#else
		case 'o': k = 2; break;
#endif
		case 'h': k = 2; break;
		case 'w': case 'X': k = 4; break;
		case 'F': k = v_spec_int(d, at, argc, 0, &val); if (k < 0) return -1; labelfmt = (val <= 255) ? 1 : 0; break;
		case 'L': k = v_spec_int(d, at, argc, labelfmt, &val); if (k < 0) return -1; break;
		case 'i': k = v_spec_int(d, at, argc, fmt, &val); if (k < 0) return -1; break;
		case 's': k = v_spec_int(d, at, argc, fmt, &val); if (k < 0) return -1; if (val < 0) { v_spec_neg = 1; return -1; } k += val; break;
		case 'f': return at + 6 <= argc ? at + 6 : -1;
		case 'd': return at + 10 <= argc ? at + 10 : -1;
		case 'n': if (at + 1 > argc) return -1;
			  k = v_spec_int(d, at + 1, argc, fmt, &val); if (k < 0) return -1; if (val < 0) { v_spec_neg = 1; return -1; } k += 1 + 2 * val; break;
		default: return -2;
		}
		if (at + k > argc) return -1;
		at += k;
	}
	if (si < cnt) return -1;            /* more slots than V_SPEC_MAX_SLOTS cannot fit the harness buffer */
	return at;
}

#endif
