/*
 * Contracts for aldor/aldor/src/srcpos.c  (property C15).
 *
 * Abstract view of a packed source position (from the property, and the field
 * list in the unit's header comment -- NOT from the shift/mask macros):
 *      bit 0        mac   macro-expanded flag
 *      bits 1..14   cno   column, 14 bits
 *      bits 15..62  lno   global line, 48 bits
 *      bit 63       free (spstack tags it)
 */
#ifndef C_SRCPOS_H
#define C_SRCPOS_H

#define SP_CNO_LIM   (1UL << 14)
#define SP_LNO_LIM   (1UL << 48)
#define SP_MAC(p)    ((p) & 1UL)
#define SP_CNO(p)    (((p) >> 1) & (SP_CNO_LIM - 1))
#define SP_LNO(p)    (((p) >> 15) & (SP_LNO_LIM - 1))
#define SP_WF(p)     ((p) < (1UL << 63))
/* lexicographic key (lno, cno), mac ignored */
#define SP_KEY_LT(p,q) (SP_LNO(p) < SP_LNO(q) || (SP_LNO(p) == SP_LNO(q) && SP_CNO(p) < SP_CNO(q)))
#define SP_KEY_EQ(p,q) (SP_LNO(p) == SP_LNO(q) && SP_CNO(p) == SP_CNO(q))

/* ---- decoding ---------------------------------------------------------- */
#define POST_sposChar(p, r)        ((r) == SP_CNO(p))
Length c_sposChar(SrcPos spos)
	__CPROVER_ensures(POST_sposChar(spos, __CPROVER_return_value))
	__CPROVER_assigns();

#define POST_sposGlobalLine(p, r)  ((r) == SP_LNO(p))
Length c_sposGlobalLine(SrcPos spos)
	__CPROVER_ensures(POST_sposGlobalLine(spos, __CPROVER_return_value))
	__CPROVER_assigns();

/* ---- construction ------------------------------------------------------
 * The property: the LINE reported is always the line of the offending text, for
 * every column (lines of 20000 characters are in the quantifier); the column
 * is exact whenever it is representable. */
#define PRE_sposGet(glno, cno)     ((glno) < SP_LNO_LIM)
#ifndef CANARY_sposGet
#define POST_sposGet(glno, cno, r) (SP_LNO(r) == (glno) && SP_MAC(r) == 0 && SP_WF(r) && \
				    ((cno) < SP_CNO_LIM ? SP_CNO(r) == (cno) : 1))
#else
#define POST_sposGet(glno, cno, r) (SP_LNO(r) == (glno) && SP_MAC(r) == 0 && SP_WF(r) && SP_CNO(r) == (cno))
#endif
SrcPos c_sposGet(Length glno, Length cno)
	__CPROVER_requires(PRE_sposGet(glno, cno))
	__CPROVER_ensures(POST_sposGet(glno, cno, __CPROVER_return_value))
	__CPROVER_assigns();

/* c may be negative (absyn.c passes off-1) as long as the column stays >= 0 */
#define PRE_sposOffset(p, c)       (SP_WF(p) && (long)(c) >= -(long)SP_CNO(p))
#ifndef CANARY_sposOffset
#define POST_sposOffset(p, c, r)   (SP_LNO(r) == SP_LNO(p) && SP_MAC(r) == SP_MAC(p) && SP_WF(r) && \
				    ((long)SP_CNO(p) + (long)(c) < (long)SP_CNO_LIM ? \
					(long)SP_CNO(r) == (long)SP_CNO(p) + (long)(c) : 1))
#else   /* canary: claims the column is one more */
#define POST_sposOffset(p, c, r)   (SP_LNO(r) == SP_LNO(p) && SP_MAC(r) == SP_MAC(p) && SP_WF(r) && \
				    ((long)SP_CNO(p) + (long)(c) < (long)SP_CNO_LIM ? \
					(long)SP_CNO(r) == (long)SP_CNO(p) + (long)(c) + 1 : 1))
#endif
SrcPos c_sposOffset(SrcPos p, int c)
	__CPROVER_requires(PRE_sposOffset(p, c))
	__CPROVER_ensures(POST_sposOffset(p, c, __CPROVER_return_value))
	__CPROVER_assigns();

#define POST_sposMacroExpanded(p, r) (SP_LNO(r) == SP_LNO(p) && SP_CNO(r) == SP_CNO(p) && SP_MAC(r) == 1 && \
				      (SP_WF(p) ? SP_WF(r) : 1))
SrcPos c_sposMacroExpanded(SrcPos p)
	__CPROVER_ensures(POST_sposMacroExpanded(p, __CPROVER_return_value))
	__CPROVER_assigns();

#define POST_sposIsMacroExpanded(p, r) (((r) != 0) == (SP_MAC(p) == 1))
Bool c_sposIsMacroExpanded(SrcPos p)
	__CPROVER_ensures(POST_sposIsMacroExpanded(p, __CPROVER_return_value))
	__CPROVER_assigns();

/* ---- order (used to sort messages): lexicographic on (line, column) ----- */
#define PRE_spos2(p, q)            (SP_WF(p) && SP_WF(q))
#ifndef CANARY_sposCmp
#define POST_sposCmp(p, q, r)      (((r) < 0) == SP_KEY_LT(p, q) && ((r) > 0) == SP_KEY_LT(q, p) && \
				    ((r) == 0) == SP_KEY_EQ(p, q))
#else
#define POST_sposCmp(p, q, r)      (((r) < 0) == SP_KEY_LT(p, q) && ((r) > 0) == SP_KEY_LT(q, p) && \
				    ((r) == 0) == ((p) == (q)))
#endif
int c_sposCmp(SrcPos sp1, SrcPos sp2)
	__CPROVER_requires(PRE_spos2(sp1, sp2))
	__CPROVER_ensures(POST_sposCmp(sp1, sp2, __CPROVER_return_value))
	__CPROVER_assigns();

#define POST_sposEqual(p, q, r)    (((r) != 0) == SP_KEY_EQ(p, q))
Bool c_sposEqual(SrcPos p, SrcPos q)
	__CPROVER_requires(PRE_spos2(p, q))
	__CPROVER_ensures(POST_sposEqual(p, q, __CPROVER_return_value))
	__CPROVER_assigns();

#define POST_sposMin(p, q, r)      (((r) == (p) || (r) == (q)) && !SP_KEY_LT(p, r) && !SP_KEY_LT(q, r))
SrcPos c_sposMin(SrcPos p, SrcPos q)
	__CPROVER_requires(PRE_spos2(p, q))
	__CPROVER_ensures(POST_sposMin(p, q, __CPROVER_return_value))
	__CPROVER_assigns();

#define POST_sposMax(p, q, r)      (((r) == (p) || (r) == (q)) && !SP_KEY_LT(r, p) && !SP_KEY_LT(r, q))
SrcPos c_sposMax(SrcPos p, SrcPos q)
	__CPROVER_requires(PRE_spos2(p, q))
	__CPROVER_ensures(POST_sposMax(p, q, __CPROVER_return_value))
	__CPROVER_assigns();

/* ---- special positions --------------------------------------------------- */
#define POST_sposIsSpecial(p, r)   (((r) != 0) == (SP_LNO(p) == 0 || SP_LNO(p) == SP_LNO_LIM - 1))
int c_sposIsSpecial(SrcPos sp)
	__CPROVER_ensures(POST_sposIsSpecial(sp, __CPROVER_return_value))
	__CPROVER_assigns();

#define POST_sposTop(r)            (SP_LNO(r) == 0 && SP_CNO(r) == 0 && SP_MAC(r) == 0 && SP_WF(r))
SrcPos c_sposTop(void)
	__CPROVER_ensures(POST_sposTop(__CPROVER_return_value))
	__CPROVER_assigns();
#define POST_sposEnd(r)            (SP_LNO(r) == SP_LNO_LIM - 1 && SP_CNO(r) == 0 && SP_MAC(r) == 0 && SP_WF(r))
SrcPos c_sposEnd(void)
	__CPROVER_ensures(POST_sposEnd(__CPROVER_return_value))
	__CPROVER_assigns();

#endif
