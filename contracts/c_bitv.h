/*
 * Contracts for aldor/aldor/src/bitv.c  (property C20: "bit vectors implement set algebra").
 *
 * Abstract view (from the property and bitv.h's "typedef ULong BitvWord", NOT from the
 * unit's BpW macro): a bit vector of class (nbits, nwords) is the set
 *      { ix in [0, nbits) : BV_BIT(r, ix) == 1 },   BV_BIT(r, ix) = (r[ix / 64] >> (ix % 64)) & 1
 * stored in nwords = ceil(nbits / 64) words.  Bits [nbits, 64*nwords) are padding.
 *
 * Universally quantified clauses use ghost indices g_bv_jx (a bit) and g_bv_w (a word),
 * nondeterministic globals fixed by the harness before the call.
 */
#ifndef C_BITV_H
#define C_BITV_H
#include <limits.h>

#define BV_BIT(r, ix)      ((((r)[(unsigned long)(ix) / 64UL]) >> ((unsigned long)(ix) % 64UL)) & 1UL)
#define BV_BITW(word, ix)  ((((word)) >> ((unsigned long)(ix) % 64UL)) & 1UL)	/* bit ix, given the word that holds it */
#define BV_NWORDS(nbits)   (((unsigned long)(nbits) + 63UL) / 64UL)
/* well-formed class: what bitvClassCreate builds from a non-negative int */
#define BV_CLASS_WF(c)     ((c)->nbits <= (unsigned long) INT_MAX && (c)->nwords == BV_NWORDS((c)->nbits))
/* bits of word w that are members (index < nbits) */
#define BV_VALID_MASK(nbits, w) \
	((unsigned long)(w) * 64UL + 64UL <= (unsigned long)(nbits) ? ~0UL : \
	 (unsigned long)(w) * 64UL >= (unsigned long)(nbits) ? 0UL : \
	 ((1UL << ((unsigned long)(nbits) % 64UL)) - 1UL))

extern unsigned long g_bv_jx;	/* ghost bit index  */
extern unsigned long g_bv_w;	/* ghost word index */

/* ---- class and allocation ------------------------------------------------ */
#define PRE_bitvClassCreate(nbits)      ((nbits) >= 0)
#ifndef CANARY_bitvClassCreate
#define POST_bitvClassCreate(nbits, c)  ((c) != 0 && (c)->nbits == (unsigned long)(nbits) && (c)->nwords == BV_NWORDS(nbits))
#else	/* canary: rounds down instead of up */
#define POST_bitvClassCreate(nbits, c)  ((c) != 0 && (c)->nbits == (unsigned long)(nbits) && (c)->nwords == (unsigned long)(nbits) / 64UL)
#endif
BitvClass c_bitvClassCreate(int nbits)
	__CPROVER_requires(PRE_bitvClassCreate(nbits))
	__CPROVER_ensures(POST_bitvClassCreate(nbits, __CPROVER_return_value))
	__CPROVER_assigns();

Bitv c_bitvNew(BitvClass class)
	__CPROVER_requires(BV_CLASS_WF(class))
	__CPROVER_ensures(__CPROVER_is_fresh(__CPROVER_return_value, class->nwords * sizeof(BitvWord)))
	__CPROVER_assigns();

/* ---- point operations ------------------------------------------------------
 * call sites: 0 <= ix < nbits (the code asserts ix < nbits; every caller indexes blocks/labels). */
#define PRE_bitvPoint(c, ix)        (BV_CLASS_WF(c) && (ix) >= 0 && (unsigned long)(ix) < (c)->nbits)
#define PRE_bitvGhostBit(c)         (g_bv_jx < (c)->nwords * 64UL)
#define PRE_bitvGhostWord(c)        (g_bv_w < (c)->nwords)

#ifndef CANARY_bitvTest
#define POST_bitvTest(r, ix, res)   ((res) == (int) BV_BIT(r, ix))
#else	/* canary: looks at the neighbouring bit */
#define POST_bitvTest(r, ix, res)   ((res) == (int) BV_BIT(r, (ix) ^ 1))
#endif
int c_bitvTest(BitvClass class, Bitv r, int ix)
	__CPROVER_requires(PRE_bitvPoint(class, ix))
	__CPROVER_ensures(POST_bitvTest(r, ix, __CPROVER_return_value))
	__CPROVER_assigns();

/* member ix afterwards; every other bit jx (incl. padding) and every other word w as before */
#ifndef CANARY_bitvSet_post
#define POST_bitvSet(r, ix, jx, oldj, w, oldw) \
	(BV_BIT(r, ix) == 1UL && ((jx) != (unsigned long)(ix) ? BV_BIT(r, jx) == (oldj) : 1) && \
	 ((w) != (unsigned long)(ix) / 64UL ? (r)[w] == (oldw) : 1))
#else	/* canary: claims the vector is unchanged */
#define POST_bitvSet(r, ix, jx, oldj, w, oldw) \
	(BV_BIT(r, jx) == (oldj) && ((w) != (unsigned long)(ix) / 64UL ? (r)[w] == (oldw) : 1))
#endif
void c_bitvSet(BitvClass class, Bitv r, int ix)
	__CPROVER_requires(PRE_bitvPoint(class, ix) && PRE_bitvGhostBit(class) && PRE_bitvGhostWord(class))
	__CPROVER_ensures(POST_bitvSet(r, ix, g_bv_jx, BV_BITW(__CPROVER_old(r[g_bv_jx / 64UL]), g_bv_jx), g_bv_w, __CPROVER_old(r[g_bv_w])))
#ifndef CANARY_bitvSet_frame
	__CPROVER_assigns(r[ix / 64]);
#else	/* canary: frame says nothing is written */
	__CPROVER_assigns();
#endif

#ifndef CANARY_bitvClear_post
#define POST_bitvClear(r, ix, jx, oldj, w, oldw) \
	(BV_BIT(r, ix) == 0UL && ((jx) != (unsigned long)(ix) ? BV_BIT(r, jx) == (oldj) : 1) && \
	 ((w) != (unsigned long)(ix) / 64UL ? (r)[w] == (oldw) : 1))
#else	/* canary: clear behaves as set */
#define POST_bitvClear(r, ix, jx, oldj, w, oldw) \
	(BV_BIT(r, ix) == 1UL && ((jx) != (unsigned long)(ix) ? BV_BIT(r, jx) == (oldj) : 1) && \
	 ((w) != (unsigned long)(ix) / 64UL ? (r)[w] == (oldw) : 1))
#endif
void c_bitvClear(BitvClass class, Bitv r, int ix)
	__CPROVER_requires(PRE_bitvPoint(class, ix) && PRE_bitvGhostBit(class) && PRE_bitvGhostWord(class))
	__CPROVER_ensures(POST_bitvClear(r, ix, g_bv_jx, BV_BITW(__CPROVER_old(r[g_bv_jx / 64UL]), g_bv_jx), g_bv_w, __CPROVER_old(r[g_bv_w])))
	__CPROVER_assigns(r[ix / 64]);

/* ---- index loops (loop contracts in contracts/loops/bitv.json) ----------------
 * Exact for every clause that one ghost index can carry; the exact population count is a
 * sum and is checked against a popcount model only up to a size cap (jobs bitv.model_*). */
/* ghost bit jx below i: contributes 1 to the count if set (LO), takes 1 from the room if clear (HI) */
#define BV_BELOW(jx, i)         ((long)(i) > 0 && (unsigned long)(jx) < (unsigned long)(i))
#define BV_COUNT_LO(bv, jx, i)  ((BV_BELOW(jx, i) && BV_BIT(bv, jx) == 1UL) ? 1 : 0)
#define BV_COUNT_HI(bv, jx, i)  ((BV_BELOW(jx, i) && BV_BIT(bv, jx) == 0UL) ? 1 : 0)

/* last member, or -1 for the empty set */
#ifndef CANARY_bitvMax
#define POST_bitvMax(c, bv, jx, res) \
	(-1 <= (res) && (long)(res) < (long)(c)->nbits && ((res) >= 0 ? BV_BIT(bv, res) == 1UL : 1) && \
	 (((jx) < (c)->nbits && BV_BIT(bv, jx) == 1UL) ? (long)(jx) <= (long)(res) : 1))
#else	/* canary: any member will do (not necessarily the last) */
#define POST_bitvMax(c, bv, jx, res) \
	(-1 <= (res) && (long)(res) < (long)(c)->nbits && ((res) >= 0 ? BV_BIT(bv, res) == 1UL : 1) && \
	 (((jx) < (c)->nbits && BV_BIT(bv, jx) == 1UL) ? (long)(jx) < (long)(res) : 1))
#endif
int c_bitvMax(BitvClass class, Bitv bv)
	__CPROVER_requires(BV_CLASS_WF(class))
	__CPROVER_ensures(POST_bitvMax(class, bv, g_bv_jx, __CPROVER_return_value))
	__CPROVER_assigns();

/* cardinality: between 0 and nbits, at least 1 if some (ghost) bit is a member, at most nbits-1 if some is not */
#ifndef CANARY_bitvCount
#define POST_bitvCountN(bv, jx, n, res) \
	(0 <= (res) && (long)(res) <= ((long)(n) > 0 ? (long)(n) : 0) && \
	 BV_COUNT_LO(bv, jx, n) <= (res) && (long)(res) <= ((long)(n) > 0 ? (long)(n) : 0) - BV_COUNT_HI(bv, jx, n))
#else	/* canary: counts the clear bits */
#define POST_bitvCountN(bv, jx, n, res) \
	(0 <= (res) && (long)(res) <= ((long)(n) > 0 ? (long)(n) : 0) && \
	 BV_COUNT_HI(bv, jx, n) <= (res) && (long)(res) <= ((long)(n) > 0 ? (long)(n) : 0) - BV_COUNT_LO(bv, jx, n))
#endif
int c_bitvCount(BitvClass class, Bitv bv)
	__CPROVER_requires(BV_CLASS_WF(class))
	__CPROVER_ensures(POST_bitvCountN(bv, g_bv_jx, class->nbits, __CPROVER_return_value))
	__CPROVER_assigns();

/* call sites (of_jflow.c): n is a block label, n < nbits */
#define PRE_bitvCountTo(c, n)   (BV_CLASS_WF(c) && (long)(n) <= (long)(c)->nbits)
int c_bitvCountTo(BitvClass class, Bitv bv, int n)
	__CPROVER_requires(PRE_bitvCountTo(class, n))
	__CPROVER_ensures(POST_bitvCountN(bv, g_bv_jx, n, __CPROVER_return_value))
	__CPROVER_assigns();

/* the only member in [org, lim), or -1.  (That -1 is returned only when there are 0 or >= 2
 * members needs an existential witness: checked against a model up to a size cap.) */
#define PRE_bitvUnique1(c, org, lim)  (BV_CLASS_WF(c) && 0 <= (org) && (long)(lim) <= (long)(c)->nbits)
#ifndef CANARY_bitvUnique1IndexInRange
#define POST_bitvUnique1(bv, org, lim, jx, res) \
	((res) == -1 || ((org) <= (res) && (res) < (lim) && BV_BIT(bv, res) == 1UL && \
	 (((unsigned long)(org) <= (jx) && (jx) < (unsigned long)(lim) && (jx) != (unsigned long)(res)) ? BV_BIT(bv, jx) == 0UL : 1)))
#else	/* canary: the answer need only be the first member */
#define POST_bitvUnique1(bv, org, lim, jx, res) \
	((res) != -1 && ((org) <= (res) && (res) < (lim) && BV_BIT(bv, res) == 1UL && \
	 (((unsigned long)(org) <= (jx) && (jx) < (unsigned long)(res)) ? BV_BIT(bv, jx) == 0UL : 1)))
#endif
int c_bitvUnique1IndexInRange(BitvClass class, Bitv bv, int org, int lim)
	__CPROVER_requires(PRE_bitvUnique1(class, org, lim))
	__CPROVER_ensures(POST_bitvUnique1(bv, org, lim, g_bv_jx, __CPROVER_return_value))
	__CPROVER_assigns();

/* small sets as machine integers: bit jx of the int is membership of jx (the code asserts nbits < 32) */
#define PRE_bitvInt(c)   (BV_CLASS_WF(c) && (c)->nbits < 32UL)
#ifndef CANARY_bitvToInt
#define POST_bitvToInt(c, bv, jx, res) \
	((jx) < 32UL ? ((((unsigned)(res)) >> (jx)) & 1U) == ((jx) < (c)->nbits ? BV_BIT(bv, jx) : 0UL) : 1)
#else	/* canary: bit order reversed */
#define POST_bitvToInt(c, bv, jx, res) \
	((jx) < 32UL ? ((((unsigned)(res)) >> (31UL - (jx))) & 1U) == ((jx) < (c)->nbits ? BV_BIT(bv, jx) : 0UL) : 1)
#endif
int c_bitvToInt(BitvClass class, Bitv bitv)
	__CPROVER_requires(PRE_bitvInt(class))
	__CPROVER_ensures(POST_bitvToInt(class, bitv, g_bv_jx, __CPROVER_return_value))
	__CPROVER_assigns();

#ifndef CANARY_bitvFromInt
#define POST_bitvFromInt(c, n, jx, res) \
	((res) != 0 && ((jx) < (c)->nbits ? BV_BIT(res, jx) == ((((unsigned)(n)) >> (jx)) & 1U) : 1))
#else	/* canary: complemented */
#define POST_bitvFromInt(c, n, jx, res) \
	((res) != 0 && ((jx) < (c)->nbits ? BV_BIT(res, jx) != ((((unsigned)(n)) >> (jx)) & 1U) : 1))
#endif
Bitv c_bitvFromInt(BitvClass class, int n)
	__CPROVER_requires(PRE_bitvInt(class))
	__CPROVER_ensures(POST_bitvFromInt(class, n, g_bv_jx, __CPROVER_return_value))
	__CPROVER_assigns();

/* ---- whole-vector operations: set algebra ---------------------------------------
 * (loops that step pointers: bound by unwinding, see jobs.py; the contracts themselves are
 * size-independent).  Meaning at ghost bit jx < nbits:  jx in r  <=>  op(jx in a, jx in b);
 * and at ghost word w < nwords (this includes the padding bits, which the code treats alike).
 * a and b are read before r is written, word by word, so r may be a or b (dflow.c does both).
 * Frame: only the nwords words of r. */
#define PRE_bitvWords(c)   (BV_CLASS_WF(c) && g_bv_w < (c)->nwords && g_bv_jx < (c)->nbits)
#define BV_R_FRAME(c, r)   __CPROVER_object_upto(r, (c)->nwords * sizeof(BitvWord))
#define BV_OLDBIT(v)       BV_BITW(__CPROVER_old((v)[g_bv_jx / 64UL]), g_bv_jx)
#define BV_OLDWORD(v)      __CPROVER_old((v)[g_bv_w])

#ifndef CANARY_bitvAnd
#define POST_bitvAnd(r, jx, w, aj, bj, aw, bw)    (BV_BIT(r, jx) == ((aj) & (bj)) && (r)[w] == ((aw) & (bw)))
#else	/* canary: intersection confused with union */
#define POST_bitvAnd(r, jx, w, aj, bj, aw, bw)    (BV_BIT(r, jx) == ((aj) | (bj)) && (r)[w] == ((aw) | (bw)))
#endif
void c_bitvAnd(BitvClass class, Bitv r, Bitv a, Bitv b)
	__CPROVER_requires(PRE_bitvWords(class))
	__CPROVER_ensures(POST_bitvAnd(r, g_bv_jx, g_bv_w, BV_OLDBIT(a), BV_OLDBIT(b), BV_OLDWORD(a), BV_OLDWORD(b)))
	__CPROVER_assigns(BV_R_FRAME(class, r));

#define POST_bitvOr(r, jx, w, aj, bj, aw, bw)     (BV_BIT(r, jx) == ((aj) | (bj)) && (r)[w] == ((aw) | (bw)))
void c_bitvOr(BitvClass class, Bitv r, Bitv a, Bitv b)
	__CPROVER_requires(PRE_bitvWords(class))
	__CPROVER_ensures(POST_bitvOr(r, g_bv_jx, g_bv_w, BV_OLDBIT(a), BV_OLDBIT(b), BV_OLDWORD(a), BV_OLDWORD(b)))
#ifndef CANARY_bitvOr_frame
	__CPROVER_assigns(BV_R_FRAME(class, r));
#else	/* canary: frame one word short */
	__CPROVER_assigns(__CPROVER_object_upto(r, (class->nwords - 1) * sizeof(BitvWord)));
#endif

#ifndef CANARY_bitvMinus
#define POST_bitvMinus(r, jx, w, aj, bj, aw, bw)  (BV_BIT(r, jx) == ((aj) & ((bj) ^ 1UL)) && (r)[w] == ((aw) & ~(bw)))
#else	/* canary: operands of the difference swapped */
#define POST_bitvMinus(r, jx, w, aj, bj, aw, bw)  (BV_BIT(r, jx) == ((bj) & ((aj) ^ 1UL)) && (r)[w] == ((bw) & ~(aw)))
#endif
void c_bitvMinus(BitvClass class, Bitv r, Bitv a, Bitv b)
	__CPROVER_requires(PRE_bitvWords(class))
	__CPROVER_ensures(POST_bitvMinus(r, g_bv_jx, g_bv_w, BV_OLDBIT(a), BV_OLDBIT(b), BV_OLDWORD(a), BV_OLDWORD(b)))
	__CPROVER_assigns(BV_R_FRAME(class, r));

#define POST_bitvNot(r, jx, w, aj, aw)            (BV_BIT(r, jx) == ((aj) ^ 1UL) && (r)[w] == ~(aw))
void c_bitvNot(BitvClass class, Bitv r, Bitv a)
	__CPROVER_requires(PRE_bitvWords(class))
	__CPROVER_ensures(POST_bitvNot(r, g_bv_jx, g_bv_w, BV_OLDBIT(a), BV_OLDWORD(a)))
	__CPROVER_assigns(BV_R_FRAME(class, r));

#ifndef CANARY_bitvCopy
#define POST_bitvCopy(r, jx, w, aj, aw)           (BV_BIT(r, jx) == (aj) && (r)[w] == (aw))
#else	/* canary: copies the complement */
#define POST_bitvCopy(r, jx, w, aj, aw)           (BV_BIT(r, jx) == ((aj) ^ 1UL) && (r)[w] == ~(aw))
#endif
void c_bitvCopy(BitvClass class, Bitv r, Bitv a)
	__CPROVER_requires(PRE_bitvWords(class))
	__CPROVER_ensures(POST_bitvCopy(r, g_bv_jx, g_bv_w, BV_OLDBIT(a), BV_OLDWORD(a)))
	__CPROVER_assigns(BV_R_FRAME(class, r));

#define POST_bitvSetAll(r, jx)                    (BV_BIT(r, jx) == 1UL)
void c_bitvSetAll(BitvClass class, Bitv r)
	__CPROVER_requires(PRE_bitvWords(class))
	__CPROVER_ensures(POST_bitvSetAll(r, g_bv_jx))
	__CPROVER_assigns(BV_R_FRAME(class, r));

#ifndef CANARY_bitvClearAll
#define POST_bitvClearAll(r, jx, w)               (BV_BIT(r, jx) == 0UL && (r)[w] == 0UL)
#else	/* canary: the universe instead of the empty set */
#define POST_bitvClearAll(r, jx, w)               (BV_BIT(r, jx) == 1UL && (r)[w] == ~0UL)
#endif
void c_bitvClearAll(BitvClass class, Bitv r)
	__CPROVER_requires(PRE_bitvWords(class))
	__CPROVER_ensures(POST_bitvClearAll(r, g_bv_jx, g_bv_w))
	__CPROVER_assigns(BV_R_FRAME(class, r));

/* equality of SETS: padding bits must not matter.  res => same membership at every (ghost) bit;
 * a (ghost) bit with different membership => !res.  (That !res implies some differing bit is
 * checked in the harness against a word-level model.) */
#ifndef CANARY_bitvEqual
#define POST_bitvEqual(c, a, b, jx, res)          (((res) == 0 || (res) == 1) && ((res) ? BV_BIT(a, jx) == BV_BIT(b, jx) : 1))
#else	/* canary: padding bits of the last word take part */
#define POST_bitvEqual(c, a, b, jx, res)          (((res) == 0 || (res) == 1) && ((res) ? (a)[((c)->nwords) - 1] == (b)[((c)->nwords) - 1] : 1))
#endif
Bool c_bitvEqual(BitvClass class, Bitv a, Bitv b)
	__CPROVER_requires(PRE_bitvWords(class))
	__CPROVER_ensures(POST_bitvEqual(class, a, b, g_bv_jx, __CPROVER_return_value))
	__CPROVER_assigns();

#endif
