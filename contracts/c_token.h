/*
 * Contracts for the character-indexed tables reachable from source bytes (property C07, clause
 * "memory safety of every table lookup indexed by a source character"):
 *   token.c : keyTag, keyLongest     (keyIx[] after the real keyInit)
 *   genc.c  : gc0ValidIdInBuf        (gcvIdChars[] / gcvIdCharc[] after the real gc0InitSpecialChars)
 *
 * The argument is ANY NUL-terminated string of at most 16 bytes -- every byte value 0x01..0xff:
 * the scanner passes escaped words (`_\xe9') and operator runs straight from the source line, and
 * identifiers reach the C name mangler unchanged.
 *
 * The table-index obligations themselves are the verifier's --bounds-check / --pointer-check
 * properties inside the real functions (keyTag.array_bounds.*, gc0ValidIdInBuf.array_bounds.* ...).
 *
 * The static tables these functions read have C initialisers (tokInfoTable[], ccSpecCharIdTable[]),
 * which goto-instrument --dfcc would discard; the jobs therefore run the real init function and the
 * real function in a plain harness and assert the POST_ text below with CHECK (same text as the
 * declarations, which document the contract).
 */
#ifndef C_TOKEN_H
#define C_TOKEN_H

#ifndef C07_STRMAX
# define C07_STRMAX	16
#endif
/* s[0..C07_STRMAX] readable, NUL within the first C07_STRMAX+1 bytes */
#define PRE_cstr16(s)		((s)[C07_STRMAX] == 0)
/* sanity variant: first byte is 7-bit (the only byte used as an index) */
#define PRE_first_byte_ascii(s)	((s)[0] >= 0)
/* gcvIdChars[] has CHAR_MAX entries: 0..126 */
#define PRE_bytes_below_127(s, g)	((s)[g] >= 0 && (s)[g] < 127)

/* ---- token.c ------------------------------------------------------------ */
#define KW_IS_KEYWORD_TAG(r)	((r) >= KW_ALPHA_START && (r) < KW_SYMBOL_LIMIT)
#ifndef CANARY_keyTag
#define POST_keyTag(s, r) \
	((r) == TK_LIMIT || (KW_IS_KEYWORD_TAG(r) && strcmp(tokInfo(r).str, (s)) == 0 && !tokInfo(r).isDisabled))
#else	/* canary: claims every string is a keyword */
#define POST_keyTag(s, r)	(KW_IS_KEYWORD_TAG(r) && strcmp(tokInfo(r).str, (s)) == 0)
#endif
/* the longest keyword that is a prefix of s (scanner's maximal munch); TK_LIMIT if none */
#define POST_keyLongest(s, r) \
	((r) == TK_LIMIT || (KW_IS_KEYWORD_TAG(r) && !tokInfo(r).isDisabled && \
			     strncmp(tokInfo(r).str, (s), strlen(tokInfo(r).str)) == 0))

#ifdef C_TOKEN_DECLS_TOKEN
TokenTag c_keyTag(String str)
	__CPROVER_requires(PRE_cstr16(str))
	__CPROVER_ensures(POST_keyTag(str, __CPROVER_return_value))
	__CPROVER_assigns();
TokenTag c_keyLongest(String str)
	__CPROVER_requires(PRE_cstr16(str))
	__CPROVER_ensures(POST_keyLongest(str, __CPROVER_return_value))
	__CPROVER_assigns();
#endif

/* ---- genc.c ------------------------------------------------------------- */
/* appends a C-identifier spelling of s to buf and returns the number of bytes appended:
 * each source byte becomes itself (alphanumeric), one of ccSpecCharIdTable's spellings (at most
 * 8 bytes, all in [A-Z_]) or nothing; with an identifier length limit the result is cut short */
#define C07_MAX_SPELLING	8
#ifndef CANARY_gc0ValidIdInBuf
#define POST_gc0ValidIdInBuf(s, n, r)	((r) >= 0 && (r) <= C07_MAX_SPELLING * (int) (n))
#else	/* canary: claims at most one byte per source byte */
#define POST_gc0ValidIdInBuf(s, n, r)	((r) >= 0 && (r) <= (int) (n))
#endif
#define C07_IS_CID_BYTE(c) \
	(((c) >= 'a' && (c) <= 'z') || ((c) >= 'A' && (c) <= 'Z') || ((c) >= '0' && (c) <= '9') || (c) == '_')

#ifdef C_TOKEN_DECLS_GENC
int c_gc0ValidIdInBuf(Buffer buf, String s)
	__CPROVER_requires(PRE_cstr16(s))
	__CPROVER_ensures(POST_gc0ValidIdInBuf(s, strlen(s), __CPROVER_return_value))
	__CPROVER_assigns(__CPROVER_object_whole(buf));
#endif

#endif
