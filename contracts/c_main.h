/*
 * Contracts for main.c:main and axlcomp.c:compCmd / compFilesLoop / compSourceFile / compSavedFile
 * (property C07, clause "its exit status is non-zero exactly when it printed an error").
 *
 * Ghost state (harness/C07/axlcomp_h.c, main_h.c):
 *   g_errors_printed   number of "(Error)" lines the compiler has printed so far in this run
 *   g_file_errors      what comsgErrorCount() answers: errors recorded since the last comsgInit()
 *                      (compFileInit) -- they are printed by comsgFini() (compFileFini)
 *
 * What the OS sees of main's return value r is (r & 0xff)  (exit(3): "status & 0377").
 */
#ifndef C_MAIN_H
#define C_MAIN_H

#define OS_STATUS(r)	((r) & 0xff)
#define C07_MAX_FILES		3
#define C07_MAX_PER_FILE	(1 << 20)	/* no overflow of the int total: (1<<20) * files < 2^31 */

/* ---- main ------------------------------------------------------------------ */
#define PRE_main			(g_errors_printed == 0)
#ifndef CANARY_main
#define POST_main(r)			((OS_STATUS(r) != 0) == (g_errors_printed > 0))
#else	/* canary: claims exit status 0 whenever errors were printed */
#define POST_main(r)			((OS_STATUS(r) == 0) == (g_errors_printed > 0))
#endif
int c_main(int argc, String *argv)
	__CPROVER_requires(PRE_main)
	__CPROVER_ensures(POST_main(__CPROVER_return_value))
	__CPROVER_assigns(g_errors_printed, g_interactive);

/* ---- compCmd: returns the number of errors printed (batch compilation) ------- */
#ifndef C07_N_LT_256
#define C07_N_RANGE(n)			((n) >= 0)
#else	/* sanity variant: fewer than 256 errors -- then main IS honest (shows the failure is the wrap) */
#define C07_N_RANGE(n)			((n) >= 0 && (n) < 256)
#endif
#define POST_compCmd(r)			(g_interactive || (C07_N_RANGE(r) && (r) == g_errors_printed))
#define POST_compCmd_main(r)		(C07_N_RANGE(r) && (r) == g_errors_printed)
/* as main uses it (replaced there): the instance of c_compCmd for the ghost-chosen n = g_n; g_n is
 * arbitrary, so every behaviour c_compCmd allows on the batch route is covered */
int c_compCmd_n(int argc, char **argv)
	__CPROVER_requires(g_errors_printed == 0)
	__CPROVER_ensures(POST_compCmd_main(__CPROVER_return_value) && __CPROVER_return_value == g_n && g_interactive == 0)
	__CPROVER_assigns(g_errors_printed, g_interactive);

#ifndef C_MAIN_ONLY

/* enforced on the real compCmd (job axlcomp.compCmd): on the batch route the value returned is the
 * number of errors printed */
int c_compCmd(int argc, char **argv)
	__CPROVER_requires(g_errors_printed == 0 && g_interactive == 0 && (argc) >= 1 && (argc) <= C07_MAX_FILES + 1)
	__CPROVER_requires(__CPROVER_is_fresh(argv, (C07_MAX_FILES + 2) * sizeof(char *)))
	__CPROVER_ensures(POST_compCmd(__CPROVER_return_value))
	__CPROVER_assigns(g_errors_printed, g_file_errors, g_interactive, cmdFileCount, compFinfov,
			  compDoGcFile, compDoGc, compRootDir, compIsDebug, cmdOptionArg);

/* ---- compFilesLoop: "Compile files ... and return the total error count" ----- */
#define PRE_compFilesLoop(argc, argv)	(g_errors_printed == 0 && (argc) >= 1 && (argc) <= C07_MAX_FILES + 1)
#ifndef CANARY_compFilesLoop
#define POST_compFilesLoop(r)		((r) >= 0 && (r) == g_errors_printed && ((r) > 0) == (g_errors_printed > 0))
#else	/* canary: claims only the LAST file's errors are returned (totErrors = nErrors instead of +=) */
#define POST_compFilesLoop(r)		((r) >= 0 && (r) <= C07_MAX_PER_FILE)
#endif
int c_compFilesLoop(int argc, char **argv)
	__CPROVER_requires(PRE_compFilesLoop(argc, argv))
	__CPROVER_requires(__CPROVER_is_fresh(argv, (C07_MAX_FILES + 2) * sizeof(char *)))
	__CPROVER_ensures(POST_compFilesLoop(__CPROVER_return_value))
	__CPROVER_assigns(g_errors_printed, g_file_errors, cmdFileCount, compFinfov);

/* ---- per-file compile functions: return the error count of that file ---------- */
#ifndef CANARY_compOneFile
#define POST_compOneFile(r) \
	((r) >= 0 && (r) <= C07_MAX_PER_FILE && g_errors_printed == __CPROVER_old(g_errors_printed) + (r))
#else	/* canary: claims a file never reports an error */
#define POST_compOneFile(r) \
	((r) == 0 && g_errors_printed == __CPROVER_old(g_errors_printed) + (r))
#endif
int c_compSourceFile(EmitInfo finfo)
	__CPROVER_requires(g_errors_printed >= 0 && g_errors_printed <= C07_MAX_FILES * C07_MAX_PER_FILE)
	__CPROVER_ensures(POST_compOneFile(__CPROVER_return_value))
	__CPROVER_assigns(g_errors_printed, g_file_errors);
int c_compSavedFile(EmitInfo finfo)
	__CPROVER_requires(g_errors_printed >= 0 && g_errors_printed <= C07_MAX_FILES * C07_MAX_PER_FILE)
	__CPROVER_ensures(POST_compOneFile(__CPROVER_return_value))
	__CPROVER_assigns(g_errors_printed, g_file_errors);

/* ---- phases of one file (replaced where compSourceFile / compSavedFile are enforced; ASSUMED):
 *      compFileInit -> comsgInit() starts a fresh count; every phase may record more errors;
 *      compFileFini -> comsgFini() prints every recorded error ------------------------------------ */
#define PHASE_CLAUSES \
	__CPROVER_requires(g_file_errors >= 0 && g_file_errors <= C07_MAX_PER_FILE) \
	__CPROVER_ensures(g_file_errors >= __CPROVER_old(g_file_errors) && g_file_errors <= C07_MAX_PER_FILE) \
	__CPROVER_assigns(g_file_errors)
void  c_compFileInit(EmitInfo finfo)
	__CPROVER_requires(1) __CPROVER_ensures(g_file_errors == 0) __CPROVER_assigns(g_file_errors);
AbSyn c_compFileFront(EmitInfo finfo, Stab stab, FILE *fin, int *plno)	PHASE_CLAUSES;
Foam  c_compFileMiddle(EmitInfo finfo, Stab stab, AbSyn ab)		PHASE_CLAUSES;
void  c_compFileSave(EmitInfo finfo, Stab stab, Foam foam)		PHASE_CLAUSES;
void  c_compFileBack(EmitInfo finfo, Foam foam)				PHASE_CLAUSES;
Foam  c_compFileLoadFoam(EmitInfo finfo)				PHASE_CLAUSES;
Bool  c_compIsMoreAfterFront(EmitInfo finfo)
	__CPROVER_requires(1) __CPROVER_ensures(1) __CPROVER_assigns();
void  c_compFileFini(EmitInfo finfo)
	__CPROVER_requires(g_file_errors >= 0 && g_file_errors <= C07_MAX_PER_FILE &&
			   g_errors_printed >= 0 && g_errors_printed <= C07_MAX_FILES * C07_MAX_PER_FILE)
	__CPROVER_ensures(g_errors_printed == __CPROVER_old(g_errors_printed) + g_file_errors)
	__CPROVER_assigns(g_errors_printed);

/* ---- the other entry points compCmd selects (-G loop, -Wsexpr, -Wseval): interactive sessions, outside the
 *      clause about compiling source text; their contracts only flag the route (ghost g_interactive) ---- */
#define INTERACTIVE_CLAUSES \
	__CPROVER_requires(1) __CPROVER_ensures(g_interactive == 1) __CPROVER_assigns(g_interactive, g_errors_printed)
int c_compGLoop(int argc, char **argv, FILE *fin, FILE *fout)	INTERACTIVE_CLAUSES;
int c_compSExprLoop(FILE *in, FILE *out)			INTERACTIVE_CLAUSES;
int c_compSEvalLoop(FILE *in, FILE *out)			INTERACTIVE_CLAUSES;

/* ---- callees of compFilesLoop that print no (Error) line (they use comsgFatal only, which exits
 *      non-zero and does not return; by reading emit.c / ccomp.c) -- ASSUMED ------------------- */
void c_compInit(void)                 __CPROVER_requires(1) __CPROVER_ensures(1) __CPROVER_assigns();
void c_compFini(void)                 __CPROVER_requires(1) __CPROVER_ensures(1) __CPROVER_assigns();
void c_compAXLmainFile(EmitInfo fi)   __CPROVER_requires(1) __CPROVER_ensures(1) __CPROVER_assigns();

#endif	/* C_MAIN_ONLY */
#endif
