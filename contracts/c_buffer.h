/*
 * Contracts for aldor/aldor/src/buffer.c  (properties C17 and C05).
 *
 * Abstract view of a buffer: (argv[0..argc), pos) with pos <= argc, argv an object of at least
 * argc bytes.  The *contents* of a saved form are the bytes argv[0..pos) after writing, and the
 * bytes argv[0..argc) when reading.
 *
 * Portable integer format (cport.h ":: Integer byte-ordering": BYTE0 is the least significant
 * byte and is the first one on file; sizes are 1, 2 and 4 bytes whatever the host's sizeof):
 *      ENC_k(v)[i] = (v >> 8 i) & 0xff        for i < k,  k in {1,2,4}
 *      DEC_k(s)    = sum s[i] << 8 i
 * These are written here from that description, not from the BYTEn/UNBYTEn macro bodies.
 *
 * C17 side (readers): for ANY buffer state satisfying BUF_WF and ANY contents, a reader either
 * does not return (bug()/_do_assert(): visible refusal, ghost g_diag, modelled as "path ends") or
 * returns having consumed exactly k bytes, all inside [pos, argc); it writes nothing but pos.
 * Memory safety (no access outside [0,argc)) is CBMC's --pointer-check/--bounds-check on an argv
 * object of exactly argc bytes.
 *
 * C05 side (writers): the view is extended by exactly ENC_k(v); every byte of the old view
 * (ghost index g_ix < old pos) is unchanged; together with the reader's DEC_k this gives
 * get(put(v)) == v on the stated domain.
 *
 * All PRE_/POST_ are macros over explicit arguments so that the native replay evaluates the same text.
 */
#ifndef C_BUFFER_H
#define C_BUFFER_H

#ifdef NATIVE_REPLAY
# define V_OBJ_HOLDS(p, n)   1
#else
# define V_OBJ_HOLDS(p, n)   (__CPROVER_POINTER_OFFSET(p) == 0 && __CPROVER_OBJECT_SIZE(p) >= (n))
#endif

#define ENC_LE(v, i)      ((UByte)((((unsigned long)(v)) >> (8 * (i))) & 0xffUL))
#define DEC_LE2(s)        ((unsigned long)(UByte)(s)[0] | ((unsigned long)(UByte)(s)[1] << 8))
#define DEC_LE4(s)        ((unsigned long)(UByte)(s)[0] | ((unsigned long)(UByte)(s)[1] << 8) | \
			   ((unsigned long)(UByte)(s)[2] << 16) | ((unsigned long)(UByte)(s)[3] << 24))

/* ghost index: "for all g < n" is proved for an arbitrary g chosen before the call */
extern Length g_ix;

/* well-formed buffer (type invariant at every call site: bufNew/bufCapture/bufNeed establish it) */
#define BUF_WF(b)         ((b)->pos <= (b)->argc && V_OBJ_HOLDS((b)->argv, (b)->argc))
/* call sites of writers: buffers from bufNew (argc >= BUF_INIT_SIZE) only ever grow; argc >= 2 is
 * what bufAdd1's growth step (argc/2 > 0) needs.  See job buffer.bufAdd1.tiny for argc < 2. */
#define BUF_WF_WR(b)      (BUF_WF(b) && (b)->argc >= 2)

/* reader frame: nothing but pos (and the refusal ghost) */
#define BUF_RD_FRAME(b, pos0, argc0, argv0, k) \
	((b)->argc == (argc0) && (b)->argv == (argv0) && (k) <= (argc0) - (pos0) && (b)->pos == (pos0) + (k))

/* ---- positions ---------------------------------------------------------- */
#define PRE_bufSetPosition(b, n)              BUF_WF(b)
#define POST_bufSetPosition(b, n, argc0, argv0) \
	((b)->pos == (n) && (n) <= (argc0) && (b)->argc == (argc0) && (b)->argv == (argv0))
void c_bufSetPosition(Buffer s, Length n)
	__CPROVER_requires(PRE_bufSetPosition(s, n))
	__CPROVER_ensures(POST_bufSetPosition(s, n, __CPROVER_old(s->argc), __CPROVER_old(s->argv)))
	__CPROVER_assigns(s->pos, g_diag);

/* bufSkip(b, n): n is untrusted at several call sites (lengths read from the file) */
#define PRE_bufSkip(b, n)                     BUF_WF(b)
#ifndef CANARY_bufSkip
#define POST_bufSkip(b, n, pos0, argc0, argv0)  BUF_RD_FRAME(b, pos0, argc0, argv0, n)
#else   /* canary: off by one in the bound */
#define POST_bufSkip(b, n, pos0, argc0, argv0)  (BUF_RD_FRAME(b, pos0, argc0, argv0, n) && (n) < (argc0) - (pos0))
#endif
void c_bufSkip(Buffer s, Length n)
	__CPROVER_requires(PRE_bufSkip(s, n))
	__CPROVER_ensures(POST_bufSkip(s, n, __CPROVER_old(s->pos), __CPROVER_old(s->argc), __CPROVER_old(s->argv)))
	__CPROVER_assigns(s->pos, g_diag);

/* ---- readers ------------------------------------------------------------ */
#define PRE_bufRd(b)                          BUF_WF(b)

/* bufGetn(b, n): any n (callers pass counts decoded from the file) */
#define POST_bufGetn(b, n, pos0, argc0, argv0, r) \
	(BUF_RD_FRAME(b, pos0, argc0, argv0, n) && (UByte *)(r) == (argv0) + (pos0))
String c_bufGetn(Buffer b, Length n)
	__CPROVER_requires(PRE_bufRd(b))
	__CPROVER_ensures(POST_bufGetn(b, n, __CPROVER_old(b->pos), __CPROVER_old(b->argc), __CPROVER_old(b->argv), __CPROVER_return_value))
	__CPROVER_assigns(b->pos, g_diag);

#define POST_bufGet1(b, pos0, argc0, argv0, r) \
	(BUF_RD_FRAME(b, pos0, argc0, argv0, 1) && (r) == (argv0)[pos0])
UByte c_bufGet1(Buffer b)
	__CPROVER_requires(PRE_bufRd(b))
	__CPROVER_ensures(POST_bufGet1(b, __CPROVER_old(b->pos), __CPROVER_old(b->argc), __CPROVER_old(b->argv), __CPROVER_return_value))
	__CPROVER_assigns(b->pos, g_diag);

/* bufNext1: peek.  Reading at pos == argc is outside the contents: must be refused. */
#define POST_bufNext1(b, pos0, argc0, argv0, r) \
	(BUF_RD_FRAME(b, pos0, argc0, argv0, 0) && (pos0) < (argc0) && (r) == (argv0)[pos0])
UByte c_bufNext1(Buffer b)
	__CPROVER_requires(PRE_bufRd(b))
	__CPROVER_ensures(POST_bufNext1(b, __CPROVER_old(b->pos), __CPROVER_old(b->argc), __CPROVER_old(b->argv), __CPROVER_return_value))
	__CPROVER_assigns(g_diag);

#ifndef CANARY_bufGetByte
#define POST_bufGetByte(b, pos0, argc0, argv0, r)  POST_bufGet1(b, pos0, argc0, argv0, r)
#else   /* canary: position not advanced */
#define POST_bufGetByte(b, pos0, argc0, argv0, r)  (BUF_RD_FRAME(b, pos0, argc0, argv0, 0) && (r) == (argv0)[pos0])
#endif
UByte c_bufGetByte(Buffer b)
	__CPROVER_requires(PRE_bufRd(b))
	__CPROVER_ensures(POST_bufGetByte(b, __CPROVER_old(b->pos), __CPROVER_old(b->argc), __CPROVER_old(b->argv), __CPROVER_return_value))
	__CPROVER_assigns(b->pos, g_diag);

#ifndef CANARY_bufGetHInt
#define POST_bufGetHInt(b, pos0, argc0, argv0, r) \
	(BUF_RD_FRAME(b, pos0, argc0, argv0, 2) && (unsigned long)(r) == DEC_LE2((argv0) + (pos0)))
#else   /* canary: the other byte order */
#define POST_bufGetHInt(b, pos0, argc0, argv0, r) \
	(BUF_RD_FRAME(b, pos0, argc0, argv0, 2) && \
	 (unsigned long)(r) == (((unsigned long)(argv0)[pos0] << 8) | (unsigned long)(argv0)[(pos0) + 1]))
#endif
UShort c_bufGetHInt(Buffer b)
	__CPROVER_requires(PRE_bufRd(b))
	__CPROVER_ensures(POST_bufGetHInt(b, __CPROVER_old(b->pos), __CPROVER_old(b->argc), __CPROVER_old(b->argv), __CPROVER_return_value))
	__CPROVER_assigns(b->pos, g_diag);

#ifndef CANARY_bufGetSInt
#define POST_bufGetSInt(b, pos0, argc0, argv0, r) \
	(BUF_RD_FRAME(b, pos0, argc0, argv0, 4) && (unsigned long)(r) == DEC_LE4((argv0) + (pos0)))
#else   /* canary: sign extension of the 4-byte form */
#define POST_bufGetSInt(b, pos0, argc0, argv0, r) \
	(BUF_RD_FRAME(b, pos0, argc0, argv0, 4) && (long)(r) == (long)(int) DEC_LE4((argv0) + (pos0)))
#endif
ULong c_bufGetSInt(Buffer b)
	__CPROVER_requires(PRE_bufRd(b))
	__CPROVER_ensures(POST_bufGetSInt(b, __CPROVER_old(b->pos), __CPROVER_old(b->argc), __CPROVER_old(b->argv), __CPROVER_return_value))
	__CPROVER_assigns(b->pos, g_diag);

UByte c_bufRdUByte(Buffer b)
	__CPROVER_requires(PRE_bufRd(b))
	__CPROVER_ensures(POST_bufGet1(b, __CPROVER_old(b->pos), __CPROVER_old(b->argc), __CPROVER_old(b->argv), __CPROVER_return_value))
	__CPROVER_assigns(b->pos, g_diag);
UShort c_bufRdUShort(Buffer b)
	__CPROVER_requires(PRE_bufRd(b))
	__CPROVER_ensures(POST_bufGetHInt(b, __CPROVER_old(b->pos), __CPROVER_old(b->argc), __CPROVER_old(b->argv), __CPROVER_return_value))
	__CPROVER_assigns(b->pos, g_diag);
ULong c_bufRdULong(Buffer b)
	__CPROVER_requires(PRE_bufRd(b))
	__CPROVER_ensures(POST_bufGetSInt(b, __CPROVER_old(b->pos), __CPROVER_old(b->argc), __CPROVER_old(b->argv), __CPROVER_return_value))
	__CPROVER_assigns(b->pos, g_diag);

/* bufGets: advance past a NUL-terminated string.  The terminator must lie inside the contents. */
#define POST_bufGets(b, pos0, argc0, argv0, r, k) \
	(BUF_RD_FRAME(b, pos0, argc0, argv0, (k) + 1) && (UByte *)(r) == (argv0) + (pos0) && (argv0)[(pos0) + (k)] == 0)

/* bufGetChars(buf, s, cc): copies cc bytes to s (s has room for cc bytes) */
#define POST_bufGetChars(b, cc, pos0, argc0, argv0)  BUF_RD_FRAME(b, pos0, argc0, argv0, (Length)(cc))

/* bufRdChars(buf, cc): cc is an int decoded from the file by the callers (foam.c 's' fields, srcpos.c):
 * any int.  Result: fresh NUL-terminated string holding the cc bytes (ghost index g_ix < cc). */
#define POST_bufRdChars(b, cc, pos0, argc0, argv0, r) \
	((cc) >= 0 && BUF_RD_FRAME(b, pos0, argc0, argv0, (Length)(cc)) && (r) != 0 && \
	 (g_ix < (Length)(cc) ? (UByte)(r)[g_ix] == (argv0)[(pos0) + g_ix] || \
				 /* strncpy stops at an embedded NUL and pads */ V_HAS_NUL_BEFORE((argv0) + (pos0), g_ix) : 1) && \
	 (r)[cc] == 0)
#define V_HAS_NUL_BEFORE(s, n)   v_has_nul_before((const UByte *)(s), (n))

/* ---- writers ------------------------------------------------------------
 * The writers' obligations are the POST_ macros below, checked by harness-level CHECKs in
 * harness/C05/buffer_wr_h.c (dfcc instrumentation of the stoResize/realloc path exhausts 8 GB, probed), so
 * there are no c_<writer> declarations: nothing here is assumed through a contract that is not checked. */
#define PRE_bufWr(b)                          (BUF_WF_WR(b) && g_ix < (b)->argc)
/* the view after a k-byte write of value v (k in 1,2,4): pos advanced, still WF, new bytes = ENC,
 * old view byte g_ix unchanged */
#define BUF_WR_VIEW(b, pos0, k)      ((b)->pos == (pos0) + (k) && (b)->pos <= (b)->argc && V_OBJ_HOLDS((b)->argv, (b)->argc))
#define BUF_OLD_KEPT(b, pos0, oldg)  (g_ix < (pos0) ? (b)->argv[g_ix] == (oldg) : 1)
/* if no growth was needed the object and every byte outside [pos0,pos0+k) are untouched */
#define BUF_NOGROW(b, pos0, argc0, argv0, k, oldg) \
	((pos0) + (k) <= (argc0) ? ((b)->argv == (argv0) && (b)->argc == (argc0) && \
		((g_ix < (argc0) && !(g_ix >= (pos0) && g_ix < (pos0) + (k))) ? (b)->argv[g_ix] == (oldg) : 1)) : 1)

/* __CPROVER_old() cannot snapshot a conditional: the ghost index is taken inside the old extent
 * (a constraint on the ghost only: "for every g_ix < old argc") */
#define V_OLDG(b)   ((b)->argv[g_ix])

#define POST_bufAdd1(b, c, pos0, argc0, argv0, oldg, r) \
	(BUF_WR_VIEW(b, pos0, 1) && (b)->argv[pos0] == (UByte)(c) && BUF_OLD_KEPT(b, pos0, oldg) && \
	 BUF_NOGROW(b, pos0, argc0, argv0, 1, oldg) && (r) == (int)(UByte)(c))

#ifndef CANARY_bufPutByte
#define POST_bufPutByte(b, v, pos0, argc0, argv0, oldg) \
	(BUF_WR_VIEW(b, pos0, 1) && (b)->argv[pos0] == ENC_LE(v, 0) && BUF_OLD_KEPT(b, pos0, oldg) && \
	 BUF_NOGROW(b, pos0, argc0, argv0, 1, oldg))
#else   /* canary: frame one byte too generous -- claims the byte after is also written */
#define POST_bufPutByte(b, v, pos0, argc0, argv0, oldg) \
	(BUF_WR_VIEW(b, pos0, 1) && (b)->argv[pos0] == ENC_LE(v, 0) && (g_ix == (pos0) - 1 ? (b)->argv[g_ix] != (oldg) : 1))
#endif

#ifndef CANARY_bufPutHInt
#define POST_bufPutHInt(b, v, pos0, argc0, argv0, oldg) \
	(BUF_WR_VIEW(b, pos0, 2) && (b)->argv[pos0] == ENC_LE(v, 0) && (b)->argv[(pos0) + 1] == ENC_LE(v, 1) && \
	 BUF_OLD_KEPT(b, pos0, oldg) && BUF_NOGROW(b, pos0, argc0, argv0, 2, oldg))
#else   /* canary: bytes swapped */
#define POST_bufPutHInt(b, v, pos0, argc0, argv0, oldg) \
	(BUF_WR_VIEW(b, pos0, 2) && (b)->argv[pos0] == ENC_LE(v, 1) && (b)->argv[(pos0) + 1] == ENC_LE(v, 0))
#endif

#ifndef CANARY_bufPutSInt
#define POST_bufPutSInt(b, v, pos0, argc0, argv0, oldg) \
	(BUF_WR_VIEW(b, pos0, 4) && (b)->argv[pos0] == ENC_LE(v, 0) && (b)->argv[(pos0) + 1] == ENC_LE(v, 1) && \
	 (b)->argv[(pos0) + 2] == ENC_LE(v, 2) && (b)->argv[(pos0) + 3] == ENC_LE(v, 3) && \
	 BUF_OLD_KEPT(b, pos0, oldg) && BUF_NOGROW(b, pos0, argc0, argv0, 4, oldg))
#else   /* canary: third byte taken from the wrong place */
#define POST_bufPutSInt(b, v, pos0, argc0, argv0, oldg) \
	(BUF_WR_VIEW(b, pos0, 4) && (b)->argv[pos0] == ENC_LE(v, 0) && (b)->argv[(pos0) + 1] == ENC_LE(v, 1) && \
	 (b)->argv[(pos0) + 2] == ENC_LE(v, 3) && (b)->argv[(pos0) + 3] == ENC_LE(v, 3))
#endif

/* bufAddn / bufPutChars / bufWrChars: n bytes of s appended (ghost g_k < n) */
extern Length g_k;
#define POST_bufAddn(b, s, n, pos0, oldg) \
	(BUF_WR_VIEW(b, pos0, n) && (g_k < (n) ? (b)->argv[(pos0) + g_k] == (UByte)(s)[g_k] : 1) && BUF_OLD_KEPT(b, pos0, oldg))

/* stated domain of the 4-byte form */
#define POST_bufIsSInt(i, r)   (((r) != 0) == ((long)(i) >= -2147483648L && (long)(i) <= 2147483647L))
Bool c_bufIsSInt(long i)
	__CPROVER_ensures(POST_bufIsSInt(i, __CPROVER_return_value))
	__CPROVER_assigns();

#endif

/* ---- harness support (shared by harness/C17 and harness/C05) ----------------------------------
 * A buffer whose argv is an object of EXACTLY argc bytes (so any access at or beyond argc is a
 * pointer-check failure) holding data[0..argc); argc, pos and data are the harness's nondet inputs. */
#ifdef C_BUFFER_HARNESS_SUPPORT
#define BUFCAP 64
/* array inputs whose elements show up in the counterexample trace (vharness.h's INPUT_ARR is a bare
 * declaration under CBMC, so the driver finds no per-element values to replay) */
#ifdef NATIVE_REPLAY
# define V_INPUT_ARR(T, x, n)  INPUT_ARR(T, x, n)
#else
# define V_INPUT_ARR(T, x, n)  T x[n]; do { unsigned v_i; for (v_i = 0; v_i < (unsigned)(n); v_i++) { T v_t; x[v_i] = v_t; } } while (0)
#endif
#ifdef NATIVE_REPLAY   /* harness objects are never freed: a leak report is not a reproduction */
const char *__asan_default_options(void) { return "detect_leaks=0"; }
#endif
#ifndef V_ARGC_MAX
# define V_ARGC_MAX (1UL << 47)   /* every object size the target's address space admits */
#endif
Length g_ix, g_k;
static int v_has_nul_before(const UByte *s, Length n)
{
	Length i;
	for (i = 0; i < BUFCAP && i < n; i++) if (s[i] == 0) return 1;
	return 0;
}
static Buffer v_mk_buffer(Length argc, Length pos, const UByte *data)
{
	Buffer b = (Buffer) malloc(sizeof(*b));
	UByte *v;
#ifdef NATIVE_REPLAY
	if (argc > (1UL << 26)) { printf("REPLAY-PRE-NOT-MET argc too large for a native replay (use the .small twin job)\n"); exit(3); }
#endif
	v = (UByte *) malloc(argc);
#ifndef NATIVE_REPLAY
	__CPROVER_assume(b != 0 && v != 0);
#endif
	memcpy(v, data, argc < BUFCAP ? argc : BUFCAP);
	b->argv = v; b->argc = argc; b->pos = pos;
	return b;
}
#ifdef C_BUFFER_STO_REFUSING
/* stoSize for this allocator model (stubs.h defines its own inside V_STUB_STO): blocks are exactly as large as requested */
ULong stoSize(Pointer p)
{
#ifdef NATIVE_REPLAY
	extern size_t malloc_usable_size(void *);
	return malloc_usable_size(p);
#else
	return __CPROVER_OBJECT_SIZE(p);
#endif
}
/* Allocator model for the C17 readers (used INSTEAD of stubs.h V_STUB_STO): as the real store.c,
 * stoAlloc(0) returns NULL, and a request larger than the address space is REFUSED (the real one
 * calls the installed handler compStoreError -> comsgFatal: a diagnostic and a non-zero exit).
 * Anything else is fresh non-NULL memory of exactly the requested size. */
#define V_ALLOC_MAX (1UL << 47)
MostAlignedType *stoAlloc(unsigned code, ULong size)
{
	void *p;
	if (size > V_ALLOC_MAX) {
		g_diag = 1;
#ifdef NATIVE_REPLAY
		printf("REPLAY-DIAG stoAlloc: out of memory (%lu)\n", size); exit(v_replay_failed ? 1 : 0);
#else
		__CPROVER_assume(0);
#endif
	}
#ifdef V_ALLOC_HOOK
	V_ALLOC_HOOK(code, size);        /* harness-supplied ghost obligation evaluated when a request is SERVED */
#endif
	if (size == 0) return (MostAlignedType *) 0;
#ifdef V_ALLOC_FOAM_NODES  /* struct-hack nodes (argv[NARY]): CBMC flags any access through a union foam * to an object
			   * smaller than the union, so FOAM nodes are never smaller than that (README, struct hack); and
			   * the literal malloc(sizeof(union foam)) makes CBMC type the object as the union */
	if (code == OB_Foam && size <= sizeof(union foam)) p = malloc(sizeof(union foam));
	else
#endif
	p = malloc(size);
#ifndef NATIVE_REPLAY
	__CPROVER_assume(p != 0);
#endif
	return (MostAlignedType *) p;
}
void stoFree(Pointer p) { (void) p; }
MostAlignedType *stoResize(Pointer p, ULong size)
{
	void *q;
	if (size > V_ALLOC_MAX) {
		g_diag = 1;
#ifdef NATIVE_REPLAY
		printf("REPLAY-DIAG stoResize: out of memory (%lu)\n", size); exit(v_replay_failed ? 1 : 0);
#else
		__CPROVER_assume(0);
#endif
	}
	q = realloc(p, size ? size : 1);
#ifndef NATIVE_REPLAY
	__CPROVER_assume(q != 0);
#endif
	return (MostAlignedType *) q;
}
#endif
#endif
