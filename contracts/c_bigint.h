/*
 * Contracts for aldor/aldor/src/bigint.c  (property C11: big-integer arithmetic is exact).
 *
 * Postconditions are written over the abstract value BS_V / BS_MAG of spec/bint_spec.h
 * (taken from the property statement); preconditions are the representation
 * invariants the call sites establish (see bint_spec.h: BS_CANON for the bint* entry
 * points, BS_WF_ST for operands of the iint* routines, which are only called from
 * bigint.c itself).
 *
 * Naming: PRE_f / POST_f are plain C macros so that the native replay evaluates the
 * same text.  Values of in/out or aliased arguments are passed to POST_f as ghost
 * values captured before the call (ghost globals g_*, see below).
 *
 * CANARY_<f> variants state a deliberately wrong result of the kind the property
 * is about (off-by-one value, wrong sign, lost carry, non-canonical result accepted).
 */
#ifndef C_BIGINT_H
#define C_BIGINT_H
#include "bint_spec.h"

/* Ghost state for routines that may overwrite an operand (r aliasing a or b): CBMC 6.11 cannot take
 * __CPROVER_old of a conditional expression
 * (and it mis-evaluated __CPROVER_old(b->placea) when probed) so the harness records them
 * here before the call and the contract REQUIRES that the ghosts equal the entry values (proved for every
 * value of the ghosts, hence for the entry values).  Never assigned by the code under contract. */
bs_u g_ma, g_mb;
int  g_na;
unsigned long g_pa;

/* =====================================================================================
 * Machine-integer helpers (full domain, class P)
 * ===================================================================================== */
#ifndef CANARY_uintLength
#define POST_uintLength(u, r)    BS_HAS_LEN((bs_u)(unsigned long)(u), r)
#else   /* canary: ceiling(lg) read as "number of bits minus one" */
#define POST_uintLength(u, r)    BS_HAS_LEN((bs_u)(unsigned long)(u), (r) + 1)
#endif
Length c_uintLength(unsigned long u)
	__CPROVER_ensures(POST_uintLength(u, __CPROVER_return_value))
	__CPROVER_assigns();

/* |n| as a mathematical integer (LONG_MIN included) */
#define BS_LABS(n)               ((n) < 0 ? (bs_u)(-(bs_v)(n)) : (bs_u)(n))
#define POST_intLength(n, r)     BS_HAS_LEN(BS_LABS(n), r)
Length c_intLength(long n)
	__CPROVER_ensures(POST_intLength(n, __CPROVER_return_value))
	__CPROVER_assigns();

#ifndef CANARY_uintBit
#define POST_uintBit(u, ix, r)   (((r) != 0) == BS_BIT((bs_u)(unsigned long)(u), ix))
#else   /* canary: bit index counted from 1 */
#define POST_uintBit(u, ix, r)   (((r) != 0) == BS_BIT((bs_u)(unsigned long)(u), (ix) + 1))
#endif
Bool c_uintBit(unsigned long u, Length ix)
	__CPROVER_ensures(POST_uintBit(u, ix, __CPROVER_return_value))
	__CPROVER_assigns();

#define POST_intBit(n, ix, r)    (((r) != 0) == BS_BIT(BS_LABS(n), ix))
Bool c_intBit(long n, Length ix)
	__CPROVER_ensures(POST_intBit(n, ix, __CPROVER_return_value))
	__CPROVER_assigns();

/* =====================================================================================
 * Conversion from/to machine integers, immediates (full domain, class P)
 * ===================================================================================== */
#ifndef CANARY_bintNew
#define POST_bintNew(n, r)       (BS_CANON(r) && BS_V(r) == (bs_v)(long)(n))
#else   /* canary: accepts any well-formed stored result, canonical or not, and an off-by-one value */
#define POST_bintNew(n, r)       (BS_CANON(r) && BS_V(r) == (bs_v)(long)(n) + ((n) == BS_IMM_MAX ? 1 : 0))
#endif
BInt c_bintNew(long n)
	__CPROVER_ensures(POST_bintNew(n, __CPROVER_return_value))
	__CPROVER_assigns();

/* stored form of n: operand form (one digit zero allowed), tight enough, exact */
#ifndef CANARY_xintStoreI
#define POST_xintStoreI(n, r)    (BS_WF_ST(r) && BS_SV(r) == (bs_v)(long)(n) && (r)->placec <= 2)
#else   /* canary: sign lost */
#define POST_xintStoreI(n, r)    (BS_WF_ST(r) && BS_SV(r) == (bs_v) BS_LABS(n) && (r)->placec <= 2)
#endif
BInt c_xintStoreI(long n)
	__CPROVER_ensures(POST_xintStoreI(n, __CPROVER_return_value))
	__CPROVER_assigns();

/* b: any stored header whose placea is the true capacity (bintAlloc'd, contents arbitrary) */
#define PRE_xintCopyInI(b, n)    (!BS_IS_IMM(b) && (b) != 0)
#ifndef CANARY_xintCopyInI
#define POST_xintCopyInI(pa, b, n, r) \
	(!BS_IS_IMM(r) && (r) != 0 && (r)->placec <= (r)->placea && (r)->placec <= 2 && \
	 BS_SV(r) == (bs_v)(long)(n) && ((n) == 0 ? 1 : BS_TOP_NZ(r)) && \
	 ((((n) == 0) || ((pa) >= 2) || ((pa) == 1 && BS_LABS(n) < BS_B)) ? (r) == (b) : 1))
#else   /* canary: high digit dropped */
#define POST_xintCopyInI(pa, b, n, r) \
	(!BS_IS_IMM(r) && (r) != 0 && (r)->placec <= (r)->placea && (r)->placec <= 2 && \
	 BS_SV(r) == (bs_v)(long)(int)(n))
#endif
BInt c_xintCopyInI(BInt b, long n)
	__CPROVER_requires(PRE_xintCopyInI(b, n) && g_pa == (b)->placea)
	__CPROVER_ensures(POST_xintCopyInI(g_pa, b, n, __CPROVER_return_value))
	__CPROVER_assigns(__CPROVER_object_whole(b));

/* b: immediate, or stored in result form / operand form (any number of digits) */
#define PRE_xintImmedIfCan(b)    (BS_IS_IMM(b) ? BS_WF_IMM(b) : ((BS_WF_RES(b) || BS_WF_ST(b)) && ((b)->isNeg == 0 || (b)->isNeg == 1)))
/* the value is kept; the result is canonical: immediate exactly when it fits */
#define BS_SMALL_MAG(b)          ((b)->placec == 0 ? (bs_u)0 : (b)->placec == 1 ? BS_D(b,0) : (BS_D(b,0) | (BS_D(b,1) << 32)))
#ifndef CANARY_xintImmedIfCan
#define POST_xintImmedIfCan(b, r) \
	(BS_IS_IMM(b) ? (r) == (b) : \
	 ((b)->placec <= 2 && BS_SMALL_MAG(b) <= (bs_u) BS_IMM_MAX) \
	    ? (BS_WF_IMM(r) && (bs_v) BS_IVAL(r) == ((b)->isNeg ? -(bs_v) BS_SMALL_MAG(b) : (bs_v) BS_SMALL_MAG(b))) \
	    : (r) == (b))
#else   /* canary: the boundary 2^62 is claimed to be immediate too */
#define POST_xintImmedIfCan(b, r) \
	(BS_IS_IMM(b) ? (r) == (b) : \
	 ((b)->placec <= 2 && BS_SMALL_MAG(b) <= (bs_u) BS_IMM_MAX + 1) \
	    ? (BS_IS_IMM(r) && (bs_v) BS_IVAL(r) == ((b)->isNeg ? -(bs_v) BS_SMALL_MAG(b) : (bs_v) BS_SMALL_MAG(b))) \
	    : (r) == (b))
#endif
BInt c_xintImmedIfCan(BInt b)
	__CPROVER_requires(PRE_xintImmedIfCan(b))
	__CPROVER_ensures(POST_xintImmedIfCan(b, __CPROVER_return_value))
	__CPROVER_assigns();

#define POST_bintIsSmall(b, r)   (((r) != 0) == BS_IS_IMM(b))
Bool c_bintIsSmall(BInt b)
	__CPROVER_ensures(POST_bintIsSmall(b, __CPROVER_return_value))
	__CPROVER_assigns();

#define PRE_bintSmall(b)         BS_WF_IMM(b)
#ifndef CANARY_bintSmall
#define POST_bintSmall(b, r)     ((r) == BS_IVAL(b))
#else   /* canary: tag bit not removed */
#define POST_bintSmall(b, r)     ((r) == (long)(b))
#endif
long c_bintSmall(BInt b)
	__CPROVER_requires(PRE_bintSmall(b))
	__CPROVER_ensures(POST_bintSmall(b, __CPROVER_return_value))
	__CPROVER_assigns();

/* =====================================================================================
 * Sign tests on canonical numbers of ANY length (class P: only the header is read)
 * a canonical stored number is never zero, so its sign is its isNeg flag
 * ===================================================================================== */
#define PRE_bintSign(b)          BS_CANON(b)
#define BS_SGN(b)                (BS_IS_IMM(b) ? (BS_IVAL(b) < 0 ? -1 : BS_IVAL(b) > 0 ? 1 : 0) : ((b)->isNeg ? -1 : 1))
#ifndef CANARY_bintIsNeg
#define POST_bintIsNeg(b, r)     (((r) != 0) == (BS_SGN(b) < 0))
#else
#define POST_bintIsNeg(b, r)     (((r) != 0) == (BS_SGN(b) <= 0))
#endif
Bool c_bintIsNeg(BInt b)
	__CPROVER_requires(PRE_bintSign(b))
	__CPROVER_ensures(POST_bintIsNeg(b, __CPROVER_return_value))
	__CPROVER_assigns();
#define POST_bintIsZero(b, r)    (((r) != 0) == (BS_SGN(b) == 0))
Bool c_bintIsZero(BInt b)
	__CPROVER_requires(PRE_bintSign(b))
	__CPROVER_ensures(POST_bintIsZero(b, __CPROVER_return_value))
	__CPROVER_assigns();
#define POST_bintIsPos(b, r)     (((r) != 0) == (BS_SGN(b) > 0))
Bool c_bintIsPos(BInt b)
	__CPROVER_requires(PRE_bintSign(b))
	__CPROVER_ensures(POST_bintIsPos(b, __CPROVER_return_value))
	__CPROVER_assigns();

/* =====================================================================================
 * Low-level digit-vector routines (class B in the value harnesses: <= 3 digits per
 * operand; the same contracts are enforced with loop contracts for memory safety)
 * ===================================================================================== */

/* r := |a| ; r may alias a.  Call-site invariant (assert in the code): Placea(r) >= Placec(a) */
#define PRE_iintAbs(r, a)        (BS_WF_ST(a) && !BS_IS_IMM(r) && (r) != 0 && (r)->placea >= (a)->placec)
#ifndef CANARY_iintAbs
#define POST_iintAbs(ma, r)      ((r)->isNeg == 0 && BS_MAG(r) == (ma) && (r)->placec <= (r)->placea)
#else
#define POST_iintAbs(ma, r)      (BS_MAG(r) == (ma) + 1)
#endif
void c_iintAbs(BInt r, BInt a)
	__CPROVER_requires(PRE_iintAbs(r, a) && g_ma == BS_MAG(a))
	__CPROVER_ensures(POST_iintAbs(g_ma, r))
	__CPROVER_assigns(__CPROVER_object_whole(r));

#define PRE_iintNegate(r, a)     PRE_iintAbs(r, a)
#ifndef CANARY_iintNegate
#define POST_iintNegate(na, ma, r) (((r)->isNeg != 0) == ((na) == 0) && BS_MAG(r) == (ma) && (r)->placec <= (r)->placea)
#else
#define POST_iintNegate(na, ma, r) (((r)->isNeg != 0) == ((na) != 0))    /* canary: sign not flipped */
#endif
void c_iintNegate(BInt r, BInt a)
	__CPROVER_requires(PRE_iintNegate(r, a) && g_ma == BS_MAG(a) && g_na == (a)->isNeg)
	__CPROVER_ensures(POST_iintNegate(g_na, g_ma, r))
	__CPROVER_assigns(__CPROVER_object_whole(r));

/* r := a + b, a,b >= 0 in operand form, a at least as many digits as b, and the sum fits r
 * (bintPlus allocates bitlength(longer)+1 bits).  r may alias a or b. */
#define BS_POW(nd)               ((nd) >= 4 ? ~(bs_u)0 : ((((bs_u)1) << (32 * (nd))) - 1))   /* B^nd - 1 for nd <= 4 */
#define PRE_iintPlus(r, a, b)    (BS_WF_ST(a) && BS_WF_ST(b) && !(a)->isNeg && !(b)->isNeg && \
				  (a)->placec >= (b)->placec && !BS_IS_IMM(r) && (r) != 0 && \
				  (r)->placea >= (a)->placec && BS_MAG(a) + BS_MAG(b) <= BS_POW((r)->placea))
#ifndef CANARY_iintPlus
#define POST_iintPlus(ma, mb, r) (BS_MAG(r) == (ma) + (mb) && BS_WF_RES(r))
#else   /* canary: carry out of the top digit lost */
#define POST_iintPlus(ma, mb, r) (BS_MAG(r) == (((ma) + (mb)) & BS_POW(3)) && BS_WF_RES(r))
#endif
void c_iintPlus(BInt r, BInt a, BInt b)
	__CPROVER_requires(PRE_iintPlus(r, a, b) && g_ma == BS_MAG(a) && g_mb == BS_MAG(b))
	__CPROVER_ensures(POST_iintPlus(g_ma, g_mb, r))
	__CPROVER_assigns(__CPROVER_object_whole(r));

/* r := a - b, a >= b >= 0.  r may alias a or b. */
#define PRE_iintMinus(r, a, b)   (BS_WF_ST(a) && BS_WF_ST(b) && !(a)->isNeg && !(b)->isNeg && \
				  (a)->placec >= (b)->placec && BS_MAG(a) >= BS_MAG(b) && \
				  !BS_IS_IMM(r) && (r) != 0 && (r)->placea >= (a)->placec)
#ifndef CANARY_iintMinus
#define POST_iintMinus(ma, mb, r) (BS_MAG(r) == (ma) - (mb) && BS_WF_RES(r))
#else   /* canary: borrow out of the lowest digit lost */
#define POST_iintMinus(ma, mb, r) (BS_MAG(r) == (ma) - (mb) + (((BIntS)(ma)) < ((BIntS)(mb)) ? BS_B : 0))
#endif
void c_iintMinus(BInt r, BInt a, BInt b)
	__CPROVER_requires(PRE_iintMinus(r, a, b) && g_ma == BS_MAG(a) && g_mb == BS_MAG(b))
	__CPROVER_ensures(POST_iintMinus(g_ma, g_mb, r))
	__CPROVER_assigns(__CPROVER_object_whole(r));

/* r := b * 2^n (n < 0: magnitude shifted right, i.e. quotient truncated toward zero).
 * bintShift calls it with rbitc = bitlength(b) + n > 0 and r = bintAlloc(rbitc). r may alias b. */
#define BS_SHIFTED(m, n)         ((n) >= 0 ? ((bs_u)(m) << (n)) : ((bs_u)(m) >> -(n)))
#define PRE_iintShift(r, b, n) \
	(BS_WF_ST(b) && BS_TOP_NZ(b) && !BS_IS_IMM(r) && (r) != 0 && (n) > -128 && (n) < 128 && \
	 BS_SHIFTED(BS_MAG(b), n) != 0 && BS_SHIFTED(BS_MAG(b), n) <= BS_POW((r)->placea) && \
	 ((n) >= 0 ? (BS_SHIFTED(BS_MAG(b), n) >> (n)) == BS_MAG(b) : 1))
#ifndef CANARY_iintShift
#define POST_iintShift(nb, mb, n, r) (BS_MAG(r) == BS_SHIFTED(mb, n) && ((r)->isNeg != 0) == ((nb) != 0) && BS_WF_RES(r) && (r)->placec >= 1)
#else   /* canary: shifts by one bit too many */
#define POST_iintShift(nb, mb, n, r) (BS_MAG(r) == BS_SHIFTED(mb, (n) + 1))
#endif
void c_iintShift(BInt r, BInt b, int n)
	__CPROVER_requires(PRE_iintShift(r, b, n) && g_ma == BS_MAG(b) && g_na == (b)->isNeg)
	__CPROVER_ensures(POST_iintShift(g_na, g_ma, n, r))
	__CPROVER_assigns(__CPROVER_object_whole(r));

/* =====================================================================================
 * Comparison, bit length, bit test on canonical numbers (class B: <= 3 digits)
 * ===================================================================================== */
#define PRE_bintCmp(a, b)        (BS_CANON(a) && BS_CANON(b))
#ifndef CANARY_bintEQ
#define POST_bintEQ(a, b, r)     (((r) != 0) == (BS_V(a) == BS_V(b)))
#else   /* canary: sign ignored */
#define POST_bintEQ(a, b, r)     (((r) != 0) == (BS_ABS(BS_V(a)) == BS_ABS(BS_V(b))))
#endif
Bool c_bintEQ(BInt a, BInt b)
	__CPROVER_requires(PRE_bintCmp(a, b))
	__CPROVER_ensures(POST_bintEQ(a, b, __CPROVER_return_value))
	__CPROVER_assigns();
#ifndef CANARY_bintLT
#define POST_bintLT(a, b, r)     (((r) != 0) == (BS_V(a) < BS_V(b)))
#else   /* canary: negative numbers compared by magnitude */
#define POST_bintLT(a, b, r)     (((r) != 0) == (BS_ABS(BS_V(a)) < BS_ABS(BS_V(b))))
#endif
Bool c_bintLT(BInt a, BInt b)
	__CPROVER_requires(PRE_bintCmp(a, b))
	__CPROVER_ensures(POST_bintLT(a, b, __CPROVER_return_value))
	__CPROVER_assigns();
#define POST_bintGT(a, b, r)     (((r) != 0) == (BS_V(a) > BS_V(b)))
Bool c_bintGT(BInt a, BInt b)
	__CPROVER_requires(PRE_bintCmp(a, b))
	__CPROVER_ensures(POST_bintGT(a, b, __CPROVER_return_value))
	__CPROVER_assigns();

#define PRE_bintLength(b)        BS_CANON(b)
#ifndef CANARY_bintLength
#define POST_bintLength(b, r)    BS_HAS_LEN(BS_ABS(BS_V(b)), r)
#else
#define POST_bintLength(b, r)    BS_HAS_LEN(BS_ABS(BS_V(b)) >> 1, r)
#endif
Length c_bintLength(BInt b)
	__CPROVER_requires(PRE_bintLength(b))
	__CPROVER_ensures(POST_bintLength(b, __CPROVER_return_value))
	__CPROVER_assigns();

/* bit ix of the magnitude (the code's own comment: sign-magnitude; negative numbers test |b|) */
#define PRE_bintBit(b, ix)       BS_CANON(b)
#ifndef CANARY_bintBit
#define POST_bintBit(b, ix, r)   (((r) != 0) == BS_BIT(BS_ABS(BS_V(b)), ix))
#else
#define POST_bintBit(b, ix, r)   (((r) != 0) == BS_BIT(BS_ABS(BS_V(b)), (ix) ^ 32))
#endif
Bool c_bintBit(BInt b, Length ix)
	__CPROVER_requires(PRE_bintBit(b, ix))
	__CPROVER_ensures(POST_bintBit(b, ix, __CPROVER_return_value))
	__CPROVER_assigns();

/* =====================================================================================
 * Allocating arithmetic.  Operands: BS_WF_OP (canonical numbers are a special case; the
 * recursive calls of the sign dispatch pass xintStore'd immediates, which are not canonical).
 * BS_CAP3: the size cap of the class-B jobs is part of the contract because BS_V is only
 * defined up to 4 digits.
 * The wrappers flip isNeg of a stored operand and flip it back: the harness checks that the
 * operands' values after the call are those on entry.
 * ===================================================================================== */
#define BS_CAP3(b)               (BS_IS_IMM(b) || (b)->placec <= 3)
#define PRE_bint1(a)             (BS_WF_OP(a) && BS_CAP3(a))
#define PRE_bint2(a, b)          (BS_WF_OP(a) && BS_WF_OP(b) && BS_CAP3(a) && BS_CAP3(b))

#ifndef CANARY_bintNegate
#define POST_bintNegate(va, r)   (BS_CANON(r) && BS_V(r) == -(va))
#else
#define POST_bintNegate(va, r)   (BS_CANON(r) && BS_V(r) == (va))
#endif
#define POST_bintAbs(va, r)      (BS_CANON(r) && BS_V(r) == ((va) < 0 ? -(va) : (va)))
#define POST_bintCopy(va, r)     (BS_CANON(r) && BS_V(r) == (va))

#ifndef CANARY_bintPlus
#define POST_bintPlus(va, vb, r) (BS_CANON(r) && BS_V(r) == (va) + (vb))
#else   /* canary: sign of the second operand dropped */
#define POST_bintPlus(va, vb, r) (BS_CANON(r) && BS_V(r) == (va) + ((vb) < 0 ? -(vb) : (vb)))
#endif
#ifndef CANARY_bintMinus
#define POST_bintMinus(va, vb, r) (BS_CANON(r) && BS_V(r) == (va) - (vb))
#else   /* canary: off by one */
#define POST_bintMinus(va, vb, r) (BS_CANON(r) && BS_V(r) == (va) - (vb) + 1)
#endif
#ifndef CANARY_bintTimes
#define POST_bintTimes(va, vb, r) (BS_CANON(r) && BS_V(r) == (va) * (vb))
#else
#define POST_bintTimes(va, vb, r) (BS_CANON(r) && BS_V(r) == (va) * (vb) + 1)
#endif

/* bintPlus/bintMinus/bintNegate/bintAbs/bintCopy/bintTimes/bintShift: the POST_ macros above are evaluated by
 * the harness (CHECK) on the real, fully inlined bodies; no c_<fn> declaration is bound for them.  A modular
 * route (c_bintPlus with __CPROVER_old(a->isNeg) / __CPROVER_is_fresh(return) clauses, --enforce-contract-rec,
 * inner calls replaced) was built and measured: goto-instrument's write-set instrumentation on tagged
 * (integer-or-heap) pointers took > 150 s of symbolic execution and the solver ran out of 8 GB; see
 * harness/C11/bigint_h.c, "sum and difference". */

/* b * 2^n; n < 0 shifts the magnitude right (quotient by 2^-n truncated toward zero, the
 * property's rounding rule for quotients) */
#define BS_VSHIFT(v, n)          ((v) < 0 ? -(bs_v) BS_SHIFTED(BS_ABS(v), n) : (bs_v) BS_SHIFTED(BS_ABS(v), n))
#ifndef CANARY_bintShift
#define POST_bintShift(vb, n, r) (BS_CANON(r) && BS_V(r) == BS_VSHIFT(vb, n))
#else
#define POST_bintShift(vb, n, r) (BS_CANON(r) && BS_V(r) == BS_VSHIFT(vb, (n) - 1))
#endif

/* lowest n bits of a non-negative number */
#define POST_bintShiftRem(vb, n, r) (BS_CANON(r) && BS_V(r) == (bs_v)(BS_ABS(vb) & ((n) >= 127 ? (~(bs_u)0) >> 1 : ((((bs_u)1) << (n)) - 1))))

/* data[0..placec): little-endian digits, leading zeros allowed */
#define POST_bintFrPlacev(neg, m, r) (BS_CANON(r) && BS_V(r) == ((neg) ? -(bs_v)(m) : (bs_v)(m)))

#endif
