/*
 * Contracts for aldor/aldor/src/lib.c header and section readers (property C17).
 *
 * The library header on file is libHdrSize = 2*2 + 2*4 + LIB_INDEX_LIMIT*(1+4+4) bytes:
 *      magic(2) verMajor(4) verMinor(4) numSect(2) then LIB_INDEX_LIMIT x { name(1) offset(4) length(4) }.
 *
 * WFH(hdr) -- "well-formed header", what the rest of lib.c relies on after the header was read:
 *      magic and version accepted; numSect <= LIB_INDEX_LIMIT;
 *      for every i < numSect:  name[i] < LIB_NAME_LIMIT,  Index[name[i]] == i,
 *                              offset[i] == (i == 0 ? libHdrSize : offset[i-1] + length[i-1]).
 * The universally quantified part is stated for a ghost index g_i chosen before the call.
 *
 * Refusal (property text: "stops with a diagnostic and a non-zero exit status"):
 *      comsgFatal / bug / failed assert  -> does not return (ghost g_diag, path ends);
 *      comsgError                        -> ghost g_err = 1 and RETURNS: the compilation goes on, so the
 *                                           caller must be told (failure value) or it will use the header.
 */
#ifndef C_LIB_H
#define C_LIB_H

extern int g_err;       /* comsgError was called */
extern UShort g_i;      /* ghost section index */

#define V_HDR_MAGIC      0420
#define V_HDR_MAJOR      28
#define V_HDR_SIZE       (2 * 2 + 2 * 4 + LIB_INDEX_LIMIT * (1 + 4 + 4))

#define WFH_FIXED(h)     ((h)->magic == V_HDR_MAGIC && (h)->verMajor >= V_HDR_MAJOR && (h)->numSect <= LIB_INDEX_LIMIT && \
			  (h)->Section[0].offset == V_HDR_SIZE)
#define WFH_AT(h, i)     ((i) < (h)->numSect ? \
				((h)->Section[i].name < LIB_NAME_LIMIT && (h)->Index[(h)->Section[i].name] == (i) && \
				 ((i) > 0 ? (h)->Section[i].offset == (h)->Section[(i) - 1].offset + (h)->Section[(i) - 1].length : 1)) : 1)
#define WFH(h)           (WFH_FIXED(h) && WFH_AT(h, g_i))

/* libChkHeader: any header whatsoever (every field arbitrary, Index[] included) */
#ifndef CANARY_libChkHeader
#define POST_libChkHeader(h, r)   ((r) ? WFH(h) : g_err != 0)
#else   /* canary: contiguity claimed against the wrong neighbour */
#define POST_libChkHeader(h, r)   ((r) ? (WFH_FIXED(h) && (g_i + 1 < (h)->numSect ? \
					(h)->Section[g_i].offset == (h)->Section[g_i + 1].offset + (h)->Section[g_i + 1].length : 1)) : g_err != 0)
#endif

/* libGetHeader(lib): lib as libNew leaves it (libNewHeader applied); the file holds ANY bytes and may be
 * shorter than the header (fread delivers at most what is there).
 * Property: a damaged header is either refused visibly to the caller or is well formed. libGetHeader's only
 * result is the Lib it was given, so "visible to the caller" can only mean: it did not return. */
#define POST_libGetHeader(h, r)   (WFH(h) && g_err == 0)

/* what libNewHeader + libGetHeader guarantee about the name->index map for ANY file: in range, so that
 * Section[Index[n]] is inside Section[LIB_HDR_LIMIT]; the slots past LIB_INDEX_LIMIT stay zero ("absent") */
#define IDX_OK(h, n)     ((n) < LIB_NAME_LIMIT ? (h)->Index[n] <= LIB_INDEX_LIMIT : 1)
#define ABSENT_OK(h)     ((h)->Section[LIB_INDEX_LIMIT].offset == 0 && (h)->Section[LIB_INDEX_LIMIT].length == 0)

/* libGetSection(lib, name, stat): requires WFH(hdr) for every i (established by a constant loop of
 * assumptions in the harness), IDX_OK for every name, ABSENT_OK; name < LIB_NAME_LIMIT (callers pass enum constants).
 * ensures: 0 for an absent section; otherwise a buffer at position 0 whose contents are the section: at least
 * `length` bytes long AND all `length` bytes really came from the file (a file truncated inside the section is refused). */
#define POST_libGetSection(h, name, r, want, got) \
	((h)->Section[(h)->Index[name]].offset == 0 ? (r) == 0 : \
	 ((r) != 0 && (r)->pos == 0 && (r)->argc >= (h)->Section[(h)->Index[name]].length && \
	  (want) == (h)->Section[(h)->Index[name]].length && (got) == (want)))

#endif
