#!/bin/bash
# seed_eval.sh <seeded-dir-name> [tier]: apply /verif/seeded/<name>/patch.diff to the repository, run the property's
# check on it, undo.  Default repository is /repo (git -C /repo apply ...; ./check; git -C /repo checkout -- .);
# SEED_REPO=<worktree> evaluates in a scratch worktree instead (the check is then run with ALDOR_REPO=<worktree>).
# Records exit status and VIOLATION/UNDECIDED lines in /verif/seeded/<name>/check_result.txt
N=$1; TIER=${2:-quick}; D=/verif/seeded/$N; ID=${N%%-*}; R=${SEED_REPO:-/repo}
git -C $R diff --quiet || { echo "$R has local changes; refusing"; exit 2; }
git -C $R apply $D/patch.diff || { echo "patch does not apply to $R" | tee $D/check_result.txt; exit 2; }
( cd /verif && ALDOR_REPO=$R ./check $ID --tier $TIER > /tmp/seed_eval_$N.log 2>&1; echo "exit=$?" > $D/check_result.txt )
git -C $R checkout -- .
grep -E "^VIOLATION|^UNDECIDED|^KNOWN|^SUMMARY" /tmp/seed_eval_$N.log | sed 's/replay=[^ ]* //' | cut -c1-300 >> $D/check_result.txt
echo "tier=$TIER ran: git -C $R apply patch.diff; ALDOR_REPO=$R ./check $ID --tier $TIER; git -C $R checkout -- .  (at $(git -C $R rev-parse --short HEAD))" >> $D/check_result.txt
echo "$N: $(head -1 $D/check_result.txt) violations=$(grep -c '^VIOLATION' $D/check_result.txt) undecided=$(grep -c '^UNDECIDED' $D/check_result.txt)"
