#!/bin/bash
# seed_eval.sh <seeded-dir-name> [tier]: apply /verif/seeded/<name>/patch.diff to /repo, run the property's check, undo.
# Records exit status and VIOLATION/UNDECIDED lines in /verif/seeded/<name>/check_result.txt
N=$1; TIER=${2:-quick}; D=/verif/seeded/$N; ID=${N%%-*}
git -C /repo diff --quiet || { echo "/repo has local changes; refusing"; exit 2; }
git -C /repo apply $D/patch.diff || { echo "patch does not apply" | tee $D/check_result.txt; exit 2; }
( cd /verif && ./check $ID --tier $TIER > /tmp/seed_eval_$N.log 2>&1; echo "exit=$?" > $D/check_result.txt )
git -C /repo checkout -- .
grep -E "^VIOLATION|^UNDECIDED|^KNOWN|^SUMMARY" /tmp/seed_eval_$N.log | cut -c1-400 >> $D/check_result.txt
echo "tier=$TIER ran: git -C /repo apply patch.diff; ./check $ID --tier $TIER; git -C /repo checkout -- ." >> $D/check_result.txt
head -1 $D/check_result.txt; grep -c "^VIOLATION" $D/check_result.txt
