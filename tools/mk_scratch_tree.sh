#!/bin/bash
# mk_scratch_tree.sh <dir>: a scratch git worktree of /repo at HEAD, with the in-tree build outputs copied so that
# `make` is incremental, and every absolute /repo path in the generated build files redirected to <dir>.
# Remove with: git -C /repo worktree remove --force <dir>
set -e
D="$1"; [ -n "$D" ] || { echo "usage: $0 <dir>"; exit 2; }
git -C /repo worktree add --detach "$D" HEAD >/dev/null
rsync -a --exclude .git /repo/ "$D"/
grep -rlI --exclude-dir=.git "/repo/aldor" "$D" 2>/dev/null | while read -r f; do
  case "$f" in *.c|*.h|*.as|*.log|*.o|*.a|*.ao|*.al) continue;; esac
  t=$(stat -c %Y "$f"); sed -i "s#/repo/aldor#$D/aldor#g" "$f"; touch -d @"$t" "$f"
done
echo "$D ready"
