#!/usr/bin/env python3
"""seed_store.py <ID>: copy the confirmed seeds /tmp/seed-<ID>/m* into /verif/seeded/<ID>-m<i>/ with meta.json."""
import json, os, shutil, sys, re
ID = sys.argv[1]
R = "/tmp/seed-" + ID
V = os.path.dirname(os.path.dirname(os.path.abspath(__file__)))
confirm = open(os.path.join(R, "confirm.txt")).read() if os.path.exists(os.path.join(R, "confirm.txt")) else ""
for m in sorted(os.listdir(R)):
    md = os.path.join(R, m)
    if not (os.path.isdir(md) and re.match(r"m\d+$", m) and os.path.exists(os.path.join(md, "patch.diff"))):
        continue
    out = os.path.join(V, "seeded", "%s-%s" % (ID, m))
    os.makedirs(out, exist_ok=True)
    for f in os.listdir(md):
        p = os.path.join(md, f)
        if os.path.isfile(p) and os.path.getsize(p) < 200000 and not f.startswith("out") and f not in ("demo", "a.out"):
            shutil.copy(p, os.path.join(out, f))
    readme = open(os.path.join(md, "README.txt"), errors="replace").read() if os.path.exists(os.path.join(md, "README.txt")) else ""
    files = re.findall(r"^\+\+\+ b/(\S+)", open(os.path.join(md, "patch.diff")).read(), re.M)
    meta_p = os.path.join(out, "meta.json")
    meta = json.load(open(meta_p)) if os.path.exists(meta_p) else {}
    meta.update({
        "property": ID, "seed": m, "files_changed": files,
        "summary": readme.strip().split("\n")[0][:300],
        "needs_to_manifest": (re.search(r"(?is)(needs to manifest|trigger)[^\n]*\n[-=]*\n?(.{0,900}?)\n\s*\n", readme) or [None, None, ""])[2].strip()[:900],
        "origin": "written by a fresh sub-agent that saw only the property text and its own scratch worktree (nothing from /verif)",
        "confirmed_by_me": {"how": "tools/confirm_seeds.sh %s in the scratch worktree /tmp/wt-%s: each patch applied alone, tree rebuilt, demo run (output digest / script exit status) against the pristine tree; then all patches applied together, full rebuild and `make -k -j8 check`" % (ID, ID),
                            "log": [l for l in confirm.split("\n") if l.startswith("== " + m) or l.startswith("suite")]},
    })
    json.dump(meta, open(meta_p, "w"), indent=1)
    print("stored", out)
