#!/usr/bin/env python3
"""
vlib.py -- driver for contract-based verification of pippijn/aldor with CBMC.

For one property id it loads /verif/harness/<id>/jobs.py, compiles every harness
translation unit from /repo's *current working tree* with goto-cc, binds the
contracts with goto-instrument --dfcc, runs cbmc (json-ui, with traces) in
parallel, classifies every property the verifier generated, replays
counterexamples natively against the real code, and writes
/verif/evidence/<id>.json.

Exit codes: 0 all obligations discharged (known findings printed as KNOWN-FINDING);
            1 at least one unlisted obligation failed (VIOLATION line printed);
            2 undecided (timeout, memory limit, tool error, splice anchor missing,
              vacuous harness).  Undecided is never reported as a violation.
"""
import concurrent.futures as cf
import hashlib
import importlib.util
import json
import os
import re
import shutil
import subprocess
import sys
import tempfile
import threading
import time

VERIF = os.path.dirname(os.path.dirname(os.path.abspath(__file__)))
REPO = os.environ.get("ALDOR_REPO", "/repo")
SRC = os.path.join(REPO, "aldor/aldor/src")
GUARD = "ALDOR_VERIF"

STD_CHECKS = ["--no-standard-checks", "--no-malloc-may-fail", "--bounds-check",
              "--pointer-check", "--div-by-zero-check"]


def log(*a):
    print(*a, file=sys.stderr, flush=True)


def sh(cmd, timeout=None, mem_gb=None, cwd=None, stdout_path=None):
    """Run cmd (list). Returns (rc, stdout, stderr, wall). rc 124 on timeout."""
    pre = ""
    if mem_gb:
        pre = "ulimit -v %d; " % int(mem_gb * 1024 * 1024)
    q = " ".join(shquote(c) for c in cmd)
    full = pre + "exec " + q
    t0 = time.time()
    out_f = open(stdout_path, "wb") if stdout_path else subprocess.PIPE
    try:
        p = subprocess.Popen(["bash", "-c", full], cwd=cwd, stdout=out_f,
                             stderr=subprocess.PIPE, start_new_session=True)
        try:
            so, se = p.communicate(timeout=timeout)
            rc = p.returncode
        except subprocess.TimeoutExpired:
            try:
                os.killpg(p.pid, 9)
            except Exception:
                pass
            so, se = p.communicate()
            rc = 124
    finally:
        if stdout_path:
            out_f.close()
    so = so.decode("utf-8", "replace") if so else ""
    se = se.decode("utf-8", "replace") if se else ""
    return rc, so, se, time.time() - t0


def shquote(s):
    if re.match(r"^[A-Za-z0-9_./=:+,@%-]+$", s):
        return s
    return "'" + s.replace("'", "'\\''") + "'"


# --------------------------------------------------------------------------
# loop-contract splicing
# --------------------------------------------------------------------------

class SpliceError(Exception):
    pass


def strip_comments_keep_layout(text):
    """Replace comments and string/char literals by spaces (same length, newlines kept)."""
    out = []
    i, n = 0, len(text)
    while i < n:
        c = text[i]
        if text.startswith("/*", i):
            j = text.find("*/", i + 2)
            j = n if j < 0 else j + 2
            out.append(re.sub(r"[^\n]", " ", text[i:j]))
            i = j
        elif text.startswith("//", i):
            j = text.find("\n", i)
            j = n if j < 0 else j
            out.append(" " * (j - i))
            i = j
        elif c == '"' or c == "'":
            j = i + 1
            while j < n and text[j] != c:
                if text[j] == "\\":
                    j += 1
                j += 1
            j = min(j + 1, n)
            out.append(c + re.sub(r"[^\n]", " ", text[i + 1:j - 1]) + (c if j - 1 > i else ""))
            i = j
        else:
            out.append(c)
            i += 1
    return "".join(out)


def find_function_body(clean, fname):
    """Return (start, end) offsets of the body {...} of the definition of fname."""
    for m in re.finditer(r"(?<![A-Za-z0-9_])" + re.escape(fname) + r"\s*\(", clean):
        # find matching paren
        i = m.end() - 1
        depth = 0
        j = i
        while j < len(clean):
            if clean[j] == "(":
                depth += 1
            elif clean[j] == ")":
                depth -= 1
                if depth == 0:
                    break
            j += 1
        k = j + 1
        while k < len(clean) and clean[k] in " \t\r\n":
            k += 1
        if k < len(clean) and clean[k] == "{":
            # must be at top level: the name should start at column 0 or be preceded by a type on
            # the previous line; check brace depth before m.start() is zero
            if clean.count("{", 0, m.start()) != clean.count("}", 0, m.start()):
                continue
            d = 0
            e = k
            while e < len(clean):
                if clean[e] == "{":
                    d += 1
                elif clean[e] == "}":
                    d -= 1
                    if d == 0:
                        return k, e + 1
                e += 1
    raise SpliceError("function %s: definition not found" % fname)


def loop_headers(clean, start, end):
    """Offsets just after the header of each for/while loop in [start,end), in textual order.
    For 'for(...)' and 'while(...)' the offset is after the closing paren.  do-while loops
    are counted too: offset after the final while(...) paren (CBMC wants clauses there)."""
    res = []
    do_stack = []
    for m in re.finditer(r"(?<![A-Za-z0-9_])(for|while|do)(?![A-Za-z0-9_])", clean[start:end]):
        kw = m.group(1)
        pos = start + m.end()
        if kw == "do":
            res.append(None)  # placeholder, ordinal reserved
            do_stack.append(len(res) - 1)
            continue
        i = pos
        while i < end and clean[i] in " \t\r\n":
            i += 1
        if i >= end or clean[i] != "(":
            continue
        depth = 0
        j = i
        while j < end:
            if clean[j] == "(":
                depth += 1
            elif clean[j] == ")":
                depth -= 1
                if depth == 0:
                    break
            j += 1
        after = j + 1
        if kw == "while":
            # is this the tail of a do-while?  (next non-space char is ';' and a do is open)
            k = after
            while k < end and clean[k] in " \t\r\n":
                k += 1
            if k < end and clean[k] == ";" and do_stack:
                idx = do_stack.pop()
                res[idx] = after
                continue
        res.append(after)
    return res


def splice_loops(unit_path, spec, out_path):
    """spec: {"function": {"<ordinal>": ["clause", ...]}} ; ordinal counts loops from 0."""
    text = open(unit_path, encoding="latin-1").read()
    clean = strip_comments_keep_layout(text)
    if len(clean) != len(text):
        raise SpliceError("internal: layout changed while stripping comments")
    inserts = []
    nclauses = 0
    # "_rename_def": {"f": "f__real"}: rename ONLY the name token in the definition of f, so that calls to f in
    # the unit bind to a function of that name supplied by the harness (the unit's prototype of f is kept).
    for fn, newname in spec.get("_rename_def", {}).items():
        s0, e0 = find_function_body(clean, fn)
        hits = [m for m in re.finditer(r"(?<![A-Za-z0-9_])" + re.escape(fn) + r"(?![A-Za-z0-9_])", clean[:s0])]
        if not hits:
            raise SpliceError("function %s: name token of definition not found" % fn)
        m = hits[-1]
        inserts.append((m.start(), ("__RENAME__", len(fn), newname)))
        nclauses += 1
    for fn, loops in spec.items():
        if fn.startswith("_"):
            continue
        s, e = find_function_body(clean, fn)
        hdrs = loop_headers(clean, s, e)
        want = loops.get("_count")
        if want is not None and want != len(hdrs):
            raise SpliceError("function %s: expected %d loops, found %d" % (fn, want, len(hdrs)))
        for ordinal, clauses in loops.items():
            if ordinal.startswith("_"):
                continue
            o = int(ordinal)
            if o >= len(hdrs) or hdrs[o] is None:
                raise SpliceError("function %s: loop #%d not found (%d loops)" % (fn, o, len(hdrs)))
            inserts.append((hdrs[o], "\n" + "\n".join(clauses) + "\n"))
            nclauses += len(clauses)
    inserts.sort()
    out = []
    last = 0
    for off, ins in inserts:
        out.append(text[last:off])
        if isinstance(ins, tuple):
            out.append(ins[2])
            last = off + ins[1]
            continue
        out.append(ins)
        last = off
    out.append(text[last:])
    with open(out_path, "w", encoding="latin-1") as f:
        f.write("".join(out))
    return nclauses


# --------------------------------------------------------------------------
# known findings
# --------------------------------------------------------------------------

def load_known(pid):
    """known_findings.txt lines:
         finding: property=<id> key=<job>:<obligation-regex> what=<text>
         fixed: property=<id> <commit> <text>
    """
    res = []
    p = os.path.join(VERIF, "known_findings.txt")
    if not os.path.exists(p):
        return res
    for line in open(p):
        line = line.strip()
        if not line.startswith("finding:"):
            continue
        m = re.match(r"finding:\s+property=(\S+)\s+key=(\S+)\s+what=(.*)$", line)
        if m and m.group(1) == pid:
            res.append({"key": m.group(2), "what": m.group(3), "seen": False})
    return res


# --------------------------------------------------------------------------
# the run
# --------------------------------------------------------------------------

class Run:
    partial = False

    def __init__(self, pid, tier, only=None, keep=False, jobs_n=None):
        self.pid = pid
        self.tier = tier
        self.only = only
        self.keep = keep
        self.hdir = os.path.join(VERIF, "harness", pid)
        base = os.environ.get("TMPDIR") or "/var/tmp"
        self.scratch = tempfile.mkdtemp(prefix="aldor-verif-%s-" % pid, dir=base)
        self.build_lock = threading.Lock()
        self.builds = {}
        self.nworkers = jobs_n or int(os.environ.get("VERIF_JOBS", "0")) or min(16, os.cpu_count() or 4)
        self.replay_dir = os.path.join(VERIF, "replays", pid)
        self.seed = int(os.environ.get("VERIF_SEED", "0") or 0)

    def cleanup(self):
        if not self.keep:
            shutil.rmtree(self.scratch, ignore_errors=True)

    # ---- build -----------------------------------------------------------
    def include_flags(self, extra_first=None):
        fl = []
        if extra_first:
            fl += ["-I" + extra_first]
        fl += ["-I" + self.hdir, "-I" + os.path.join(VERIF, "harness/include"),
               "-I" + os.path.join(VERIF, "contracts"), "-I" + os.path.join(VERIF, "spec"),
               "-I" + SRC, "-I" + os.path.join(SRC, "java")]
        return fl

    def build(self, job):
        defs = tuple(job.get("defs", []))
        splice = job.get("splice")
        key = hashlib.sha1(repr((job["src"], defs, json.dumps(splice, sort_keys=True))).encode()).hexdigest()[:12]
        with self.build_lock:
            ent = self.builds.get(key)
            if ent is None:
                ent = {"lock": threading.Lock(), "done": False}
                self.builds[key] = ent
        with ent["lock"]:
            if ent["done"]:
                return ent
            d = os.path.join(self.scratch, "b_" + key)
            os.makedirs(d, exist_ok=True)
            ent["dir"] = d
            ent["err"] = None
            ent["spliced"] = 0
            try:
                if splice:
                    for unit, specfile in splice.items():
                        spec = specfile if isinstance(specfile, dict) else json.load(open(os.path.join(VERIF, "contracts/loops", specfile)))
                        ent["spliced"] += splice_loops(os.path.join(SRC, unit), spec, os.path.join(d, unit))
                src = os.path.join(self.hdir, job["src"])
                cmd = (["goto-cc", "-D" + GUARD, "-D__NO_CTYPE"] + list(defs) + self.include_flags(d if splice else None)
                       + [src, "-c", "-o", os.path.join(d, "base.o")])
                rc, so, se, w = sh(cmd, timeout=300)
                ent["cmd"] = " ".join(cmd)
                ent["objs"] = [os.path.join(d, "base.o")]
                if rc != 0 or not os.path.exists(os.path.join(d, "base.o")):
                    ent["err"] = "goto-cc failed (rc=%d): %s" % (rc, (se + so)[-1500:])
                for x in job.get("link", []):
                    o = self.link_obj(x)
                    if o is None:
                        ent["err"] = "goto-cc failed on linked real unit %s" % x
                    else:
                        ent["objs"].append(o)
            except SpliceError as e:
                ent["err"] = "splice: %s" % e
            except Exception as e:  # noqa
                ent["err"] = "build: %r" % e
            ent["done"] = True
            return ent

    def link_obj(self, unit):
        """goto-cc -c of a real unit that is linked (not textually included); shared by all builds of the run.
        unit is "file.c" or "file.c:-Dsym=newname[:-D...]" (renames a symbol the harness stubs, e.g. bug)."""
        with self.build_lock:
            cache = self.__dict__.setdefault("_link_objs", {})
            if unit in cache:
                return cache[unit]
            parts = unit.split(":")
            fn, extra = parts[0], parts[1:]
            o = os.path.join(self.scratch, "link_" + re.sub(r"[^A-Za-z0-9_.]", "_", unit) + ".o")
            rc, so, se, w = sh(["goto-cc", "-D" + GUARD, "-D__NO_CTYPE"] + extra + self.include_flags() + [os.path.join(SRC, fn), "-c", "-o", o], timeout=300)
            cache[unit] = o if rc == 0 and os.path.exists(o) else None
            return cache[unit]

    # ---- one job ---------------------------------------------------------
    def run_job(self, job):
        """One job; a non-canary job that TIMES OUT is retried once with --stop-on-fail (and without the VREACH twin):
        CBMC's all-properties mode re-solves after the first failing property, and that second round can take far
        longer than finding the failure did.  The retry can only turn 'undecided' into 'failed' (with a trace); a
        retry that finds nothing leaves the job undecided."""
        if job.get("kind") == "refute":
            # a bounded-time COUNTEREXAMPLE SEARCH for an obligation whose proof does not terminate here: --stop-on-fail,
            # no VREACH twin.  A failure is a violation like any other (trace, native replay); running out of time is
            # 'inconclusive': listed in the evidence, never counted as discharged, and it does not make the check undecided.
            job2 = dict(job, defs=list(job.get("defs", [])) + ["-DV_NO_VREACH"], cbmc=list(job.get("cbmc", [])) + ["--stop-on-fail"], noreach=True)
            res = self._run_job_once(job2)
            if res["status"] == "undecided" and res["reason"].startswith("cbmc timeout"):
                res["status"] = "inconclusive"
            elif res["status"] == "ok" or res["reason"].startswith("cbmc produced no result (rc=0)"):
                res["status"] = "inconclusive"      # (--stop-on-fail prints no result table: nothing to count)
                res["reason"] = "search completed without a counterexample (not counted: no result table, no reachability twin)"
            return res
        res = self._run_job_once(job)
        if (res["status"] == "undecided" and res["reason"].startswith("cbmc timeout") and job.get("kind", "obligation") != "canary"
                and "--stop-on-fail" not in job.get("cbmc", []) and not job.get("no_retry") and os.environ.get("VERIF_NO_RETRY") != "1"):
            job2 = dict(job, defs=list(job.get("defs", [])) + ["-DV_NO_VREACH"], cbmc=list(job.get("cbmc", [])) + ["--stop-on-fail"],
                        noreach=True, timeout=min(job.get("timeout", 300), 900))
            res2 = self._run_job_once(job2)
            if res2["status"] == "failed":
                res2["cmds"] = res["cmds"] + res2["cmds"]
                res2["wall_s"] = round(res.get("wall_s", 0) + res2.get("wall_s", 0), 2)
                return res2
            res["cmds"] += res2["cmds"]
            res["reason"] += "; retry with --stop-on-fail: " + (res2["reason"] or res2["status"])
            res["wall_s"] = round(res.get("wall_s", 0) + res2.get("wall_s", 0), 2)
        return res

    def _run_job_once(self, job):
        t0 = time.time()
        res = {"job": job["name"], "kind": job.get("kind", "obligation"), "cls": job.get("cls", "P"),
               "status": "undecided", "reason": "", "props": [], "failed": [], "cmds": [],
               "functions": job.get("functions", []), "bound": job.get("bound"),
               "assumed": list(job.get("assumed", [])), "nobody": [], "solver_s": 0.0}
        ent = self.build(job)
        if ent["err"]:
            res["reason"] = ent["err"]
            res["wall_s"] = time.time() - t0
            return res
        d = ent["dir"]
        jd = os.path.join(d, "j_" + re.sub(r"[^A-Za-z0-9_.-]", "_", job["name"]))
        os.makedirs(jd, exist_ok=True)
        entry = job["entry"]
        base = os.path.join(jd, "base.gb")
        cmd = ["goto-cc", "--function", entry] + ent["objs"] + ["-o", base]
        rc, so, se, w = sh(cmd, timeout=300)
        if rc != 0 or not os.path.exists(base):
            res["reason"] = "goto-cc link failed (rc=%d): %s" % (rc, (so + se)[-800:])
            res["wall_s"] = time.time() - t0
            return res
        use_dfcc = bool(job.get("enforce") or job.get("replace") or job.get("loops"))
        gb = base
        if use_dfcc:
            gb = os.path.join(jd, "inst.gb")
            cmd = ["goto-instrument", "--dfcc", entry]
            for e in job.get("enforce", []):
                cmd += ["--enforce-contract-rec" if job.get("rec") else "--enforce-contract", e]
            for r in job.get("replace", []):
                cmd += ["--replace-call-with-contract", r]
            if job.get("loops"):
                cmd += ["--apply-loop-contracts"]
            cmd += job.get("gi", [])
            cmd += [base, gb]
            rc, so, se, w = sh(cmd, timeout=job.get("gi_timeout", 300), mem_gb=job.get("mem_gb", 8))
            res["cmds"].append(" ".join(cmd))
            if rc != 0 or not os.path.exists(gb):
                res["reason"] = "goto-instrument failed (rc=%d): %s" % (rc, (so + se)[-1500:])
                res["wall_s"] = time.time() - t0
                return res
        cmd = ["cbmc", "--json-ui", "--trace"] + job.get("checks", STD_CHECKS) + job.get("cbmc", [])
        if not use_dfcc:
            cmd += ["--drop-unused-functions"]
        cmd += [gb]
        outp = os.path.join(jd, "out.json")
        # job timeouts are written for an idle 16-core machine; they are scaled (default x2.5) so that a loaded machine does
        # not turn a job that terminates into an 'undecided' (VERIF_TIMEOUT_SCALE=1 restores the written values)
        tmo = int(job.get("timeout", 300) * float(os.environ.get("VERIF_TIMEOUT_SCALE", "2.5")))
        rc, so, se, w = sh(cmd, timeout=tmo, mem_gb=job.get("mem_gb", 8), stdout_path=outp)
        res["cmds"].append(" ".join(cmd))
        res["solver_s"] = round(w, 2)
        if rc == 124:
            res["reason"] = "cbmc timeout after %ss" % tmo
            res["wall_s"] = time.time() - t0
            return res
        try:
            data = json.load(open(outp))
        except Exception as e:
            res["reason"] = "cbmc output unreadable (rc=%d, likely memory limit): %r %s" % (rc, e, se[-300:])
            res["wall_s"] = time.time() - t0
            return res
        msgs = []
        props = None
        for e in data:
            if "messageText" in e:
                msgs.append(e["messageText"])
            if "result" in e:
                props = e["result"]
            elif props is None and e.get("status") == "failed" and "property" in e and "--stop-on-fail" in cmd:
                # --stop-on-fail (canary jobs): the first failing property and its trace, no result table
                props = [dict(e, status="FAILURE")]
        alltext = "\n".join(msgs)
        res["nobody"] = sorted(set(re.findall(r"no body for (?:callee|function) (\S+)", alltext)))
        if job.get("strict_nobody"):
            bad = [f for f in res["nobody"] if f not in job.get("nobody_ok", [])]
            if bad:
                res["reason"] = "callee(s) without body reached (would be nondet): %s" % ",".join(bad[:6])
                res["wall_s"] = time.time() - t0
                return res
        if props is None:
            res["reason"] = "cbmc produced no result (rc=%d): %s" % (rc, alltext[-800:])
            res["wall_s"] = time.time() - t0
            return res
        if re.search(r"ignoring (forall|exists)", alltext):
            res["reason"] = "quantifier ignored by back end"
            res["wall_s"] = time.time() - t0
            return res
        reach_ok = False
        has_reach = False
        nobl = 0
        failed = []
        unwind_fail = []
        unknown = []
        for p in props:
            desc = p.get("description", "")
            pidp = p.get("property", "")
            st = p.get("status")
            if desc.startswith("VCOVER"):
                # informational reachability probe: FAILURE = the guarded branch is reachable
                res.setdefault("covers", []).append({"desc": desc[7:120], "reached": st == "FAILURE"})
                continue
            if desc.startswith("VREACH"):
                has_reach = True
                if st == "FAILURE":
                    reach_ok = True
                continue
            cls = p.get("sourceLocation", {}).get("propertyClass") or pidp.split(".")[-2] if "." in pidp else ""
            ent_p = {"id": pidp, "desc": desc[:160], "status": st}
            res["props"].append(ent_p)
            nobl += 1
            if st == "FAILURE":
                if "unwinding assertion" in desc or ".unwind." in pidp:
                    unwind_fail.append(pidp)
                else:
                    failed.append(p)
            elif st != "SUCCESS":
                unknown.append(pidp)
        res["nprops"] = nobl
        # CBMC reports the sibling checks of a FAILED check (and everything dominated by it) as UNKNOWN:
        # that is only "undecided" when nothing failed.
        if unknown and not failed and not unwind_fail:
            res["reason"] = "property %s has status UNKNOWN" % unknown[0]
        if job.get("loops"):
            nli = sum(1 for p in props if "loop_invariant" in p.get("property", "") or "loop invariant" in p.get("description", ""))
            if nli == 0:
                res["reason"] = "loop contracts requested but no loop-invariant obligation generated"
                res["wall_s"] = time.time() - t0
                return res
        if unwind_fail:
            res["reason"] = "unwinding assertion failed (bound too small): %s" % ",".join(unwind_fail[:3])
            res["wall_s"] = time.time() - t0
            return res
        if res["reason"]:
            res["wall_s"] = time.time() - t0
            return res
        kind = res["kind"]
        if nobl == 0:
            res["reason"] = "zero obligations generated"
        elif kind == "canary":
            # a deliberately wrong contract / expectation: some obligation MUST fail
            if failed:
                res["status"] = "ok"
            else:
                res["reason"] = "canary not detected: mutated contract still verifies (contract too weak or harness vacuous)"
        else:
            if failed:
                # a failing obligation is reported even when it also cuts off the end of the harness
                # (e.g. an internal assert()/bug() path that became reachable)
                res["status"] = "failed"
                for p in failed:
                    res["failed"].append(self.describe_failure(job, p, jd))
            elif has_reach and not reach_ok:
                res["reason"] = "harness end unreachable: obligations would be vacuous"
            elif not has_reach and not job.get("noreach"):
                res["reason"] = "harness has no VREACH marker"
            else:
                res["status"] = "ok"
        res["wall_s"] = round(time.time() - t0, 2)
        return res

    # ---- counterexamples ---------------------------------------------------
    def describe_failure(self, job, p, jd):
        desc = p.get("description", "")
        oblig = desc if desc.startswith("CHECK") else p.get("property", "")
        oblig_key = re.sub(r"\s+", "_", oblig.strip())
        f = {"obligation": p.get("property", ""), "description": desc, "key": job["name"] + ":" + oblig_key,
             "location": {k: p.get("sourceLocation", {}).get(k) for k in ("file", "line", "function")},
             "inputs": {}, "replayed": None}
        inputs = job.get("inputs", [])
        entry = job["entry"]
        vals = {}
        whole = {}
        tail = []
        for s in p.get("trace", []):
            if s.get("stepType") != "assignment":
                continue
            lhs = s.get("lhs", "")
            fn = s.get("sourceLocation", {}).get("function")
            v = s.get("value", {})
            if fn == entry or s.get("assignmentType") == "variable":
                basename = lhs.split("[")[0].split(".")[0]
                if basename in inputs and fn == entry:
                    if lhs not in vals and "binary" in v or ("data" in v and lhs not in vals):
                        vals.setdefault(lhs, v)
                    elif v.get("name") == "array" and lhs == basename:      # whole-array value (declaration of a nondet array)
                        for el in v.get("elements", []):
                            ev = el.get("value", {})
                            if "binary" in ev or "data" in ev:
                                whole.setdefault("%s[%s]" % (lhs, el.get("index")), ev)
            if fn and not lhs.startswith("__") and not fn.startswith("__CPROVER") and "data" in v:
                tail.append("%s:%s %s=%s" % (fn, s.get("sourceLocation", {}).get("line"), lhs, v.get("data")))
        # element-wise assignments (nondet per element) take precedence over the value printed at the array's declaration
        norm = lambda k: re.sub(r"\[(\d+)l?\]", r"[\1]", k)
        have = {norm(k) for k in vals}
        for k, v in whole.items():
            if norm(k) not in have:
                vals[k] = v
        for k, v in vals.items():
            f["inputs"][k] = {"data": v.get("data"), "binary": v.get("binary"), "type": v.get("type")}
        f["trace_tail"] = tail[-40:]
        return f

    def native_replay(self, job, fail, outdir):
        """Compile the same harness natively with the counterexample inputs and run it on the real code."""
        if not job.get("native"):
            return None, "no native replay defined for this harness"
        inputs = job.get("inputs", [])
        lines = ["/* generated from CBMC counterexample for %s */" % fail["key"]]
        ents = []
        for lhs, v in fail["inputs"].items():
            val = c_literal(v)
            if val is None:
                continue
            key = re.sub(r"\[(\d+)l?\]", r"[\1]", lhs)
            ents.append('{"%s", (unsigned long)(%s)},' % (key, val))
        lines.append("#define V_CEX_TABLE " + " ".join(ents))
        cex_h = os.path.join(outdir, "cex.h")
        with open(cex_h, "w") as fh:
            fh.write("\n".join(lines) + "\n")
        exe = os.path.join(self.scratch, "replay_" + hashlib.sha1(fail["key"].encode()).hexdigest()[:10])
        src = os.path.join(self.hdir, job["src"])
        libs = self.native_libs()
        cmd = (["gcc", "-w", "-g", "-O0", "-fsanitize=address,undefined", "-fno-sanitize-recover=undefined",
                "-DNATIVE_REPLAY", "-DENTRY=" + job["entry"], "-include", cex_h]
               + list(job.get("defs", [])) + self.include_flags(self.build(job)["dir"] if job.get("splice") else None) + [src]
               + (["-Wl,--allow-multiple-definition"] + libs if libs else []) + ["-lm", "-o", exe])
        rc, so, se, w = sh(cmd, timeout=300)
        if rc != 0:
            return None, "native replay did not compile: " + se[-600:]
        rc, so, se, w = sh(["env", "ASAN_OPTIONS=detect_leaks=0", exe], timeout=60)
        out = (so + se)[-3000:]
        with open(os.path.join(outdir, "replay_output.txt"), "w") as fh:
            fh.write("$ " + " ".join(cmd) + "\n" + out)
        reproduced = ("REPLAY-FAIL" in out) or ("AddressSanitizer" in out) or ("runtime error" in out) or rc < 0 or rc >= 128
        if "REPLAY-PRE-NOT-MET" in out:
            return False, out
        return reproduced, out

    def native_libs(self):
        """One static archive of ALL real library sources (libport, libgen, libstruct, libphase of
        src/Makefile.am), compiled from /repo's current working tree into scratch (about 3 s on 16 cores)."""
        with self.build_lock:
            if getattr(self, "_libs", None) is not None:
                return self._libs
            self._libs = build_real_archive(os.path.join(self.scratch, "native_objs"))
            return self._libs

    # ---- whole property -----------------------------------------------------
    def main(self):
        t0 = time.time()
        os.environ["VERIF_GEN_DIR"] = os.path.join(self.scratch, "gen")
        spec = importlib.util.spec_from_file_location("jobs_" + self.pid, os.path.join(self.hdir, "jobs.py"))
        mod = importlib.util.module_from_spec(spec)
        spec.loader.exec_module(mod)
        jobs = mod.jobs(self.tier)
        if self.only:
            jobs = [j for j in jobs if re.search(self.only, j["name"])]
            if not jobs and self.tier != "thorough":
                jobs = [j for j in mod.jobs("thorough") if re.search(self.only, j["name"])]
        names = [j["name"] for j in jobs]
        assert len(set(names)) == len(names), "duplicate job names"
        known = load_known(self.pid)
        log("[%s/%s] %d jobs, %d workers, scratch %s" % (self.pid, self.tier, len(jobs), self.nworkers, self.scratch))
        results = []
        jobs_sorted = sorted(jobs, key=lambda j: -j.get("timeout", 300) * j.get("weight", 1))
        with cf.ThreadPoolExecutor(max_workers=self.nworkers) as ex:
            futs = {ex.submit(self.run_job, j): j for j in jobs_sorted}
            for fu in cf.as_completed(futs):
                j = futs[fu]
                try:
                    r = fu.result()
                except Exception as e:  # noqa
                    r = {"job": j["name"], "kind": j.get("kind", "obligation"), "cls": j.get("cls", "P"),
                         "status": "undecided", "reason": "driver exception %r" % e, "props": [], "failed": [],
                         "cmds": [], "functions": j.get("functions", []), "assumed": [], "nobody": [],
                         "solver_s": 0, "wall_s": 0}
                r["_job"] = j
                results.append(r)
                log("  %-52s %-9s %3d props %6.1fs %s" % (r["job"][:52], r["status"], len(r["props"]),
                                                          r.get("wall_s", 0), r["reason"][:140]))
        results.sort(key=lambda r: names.index(r["job"]))

        violations = []
        known_hits = []
        undecided = [r for r in results if r["status"] == "undecided"]
        if os.path.isdir(self.replay_dir) and not getattr(self, "partial", False):
            shutil.rmtree(self.replay_dir, ignore_errors=True)
        for r in results:
            if r["status"] != "failed":
                continue
            for f in r["failed"]:
                k = None
                for kf in known:
                    if re.fullmatch(kf["key"], f["key"]):
                        k = kf
                        break
                if k:
                    k["seen"] = True
                    known_hits.append((k, f))
                    continue
                od = os.path.join(self.replay_dir, re.sub(r"[^A-Za-z0-9_.-]", "_", f["key"])[:120])
                os.makedirs(od, exist_ok=True)
                rep, out = self.native_replay(r["_job"], f, od)
                f["replayed"] = rep
                f["replay_output"] = (out or "")[-1500:]
                rp = os.path.join(od, "replay.json")
                with open(rp, "w") as fh:
                    json.dump({"property": self.pid, "job": r["job"], "failed_obligation": f["obligation"],
                               "description": f["description"], "location": f["location"],
                               "counterexample_inputs": f["inputs"], "native_replay_reproduced": rep,
                               "native_replay_output": f["replay_output"], "verifier_trace_tail": f.get("trace_tail"),
                               "commands": r["cmds"], "functions_under_contract": r["functions"]}, fh, indent=1)
                violations.append((f, rp, rep))

        # ---- evidence ------------------------------------------------------
        inconclusive = [r for r in results if r["status"] == "inconclusive"]
        real = [r for r in results if r["kind"] != "canary" and r["status"] != "inconclusive"]
        canaries = [r for r in results if r["kind"] == "canary"]
        P = [r for r in real if r["cls"] == "P"]
        B = [r for r in real if r["cls"] == "B"]

        nknown = len(known_hits)

        def count(rs):
            # obligations recorded in known_findings.txt are reported separately, not as obligations to discharge
            kn = sum(1 for r in rs for f in r["failed"] if any(f is kf for _, kf in known_hits))
            n = sum(len(r["props"]) for r in rs) - kn
            ok = sum(1 for r in rs for p in r["props"] if p["status"] == "SUCCESS" and r["status"] in ("ok", "failed"))
            return n, ok
        nP, okP = count(P)
        nB, okB = count(B)
        funcs = sorted(set(f for r in real for f in r["functions"]))
        assumed = sorted(set(a for r in results for a in r["assumed"]))
        nobody = sorted(set(a for r in real for a in r["nobody"]))
        mod_assume = list(getattr(mod, "ASSUMPTIONS", []))
        samples = []
        for r in real[:400]:
            samples.append({"job": r["job"], "class": r["cls"], "bound": r.get("bound"), "status": r["status"],
                            "functions": r["functions"], "properties": len(r["props"]),
                            "solver_s": r["solver_s"],
                            "example_obligations": [p["id"] + " :: " + p["desc"][:70] for p in r["props"][:3]]})
        ev = {
            "property_id": self.pid, "tier": self.tier, "seed": self.seed, "level": "proof",
            "coverage": {
                "obligations": nP, "discharged": okP,
                "bounded_obligations": nB, "bounded_discharged": okB,
                "bounded_note": "obligations of class B hold only up to the stated size cap of their job and are NOT counted in obligations/discharged",
                "jobs": len(real), "jobs_proved_class_P": sum(1 for r in P if r["status"] == "ok"),
                "jobs_bounded_class_B": sum(1 for r in B if r["status"] == "ok"),
                "canaries_run": len(canaries), "canaries_detected": sum(1 for r in canaries if r["status"] == "ok"),
                "reachability_twins_passed": sum(1 for r in real if r["status"] in ("ok", "failed") and not r["_job"].get("noreach")),
                "functions_under_contract": funcs,
                "checker_cmd": "goto-cc -DALDOR_VERIF <harness that #includes the real unit from /repo> ; goto-instrument --dfcc <entry> --enforce-contract f/c_f [--replace-call-with-contract g/c_g] [--apply-loop-contracts] ; cbmc --json-ui --trace --no-standard-checks --no-malloc-may-fail --bounds-check --pointer-check --div-by-zero-check (back end: CBMC 6.11 built-in SAT, MiniSat2)",
                "backend": "cbmc 6.11.0 / MiniSat2 (default propositional back end)",
                "solver_time_s": round(sum(r["solver_s"] for r in results), 1),
                "trusted_base": ["CBMC 6.11.0 C front end, goto-instrument DFCC contract instrumentation and SAT back end",
                                 "LP64 little-endian target, char signed, as goto-cc models x86_64 Linux",
                                 ] + mod_assume,
                "assumed_contracts_or_stubs": assumed,
                "functions_without_body_treated_as_nondet_return_no_side_effect": nobody,
                "undecided_jobs": [{"job": r["job"], "reason": r["reason"][:300]} for r in undecided],
                "inconclusive_refutation_searches_NOT_counted": [{"job": r["job"], "reason": r["reason"][:200], "bound": r.get("bound")} for r in inconclusive],
                "known_finding_obligations_failed_as_recorded": nknown,
                "known_findings_seen": sorted(set(f["key"] for _, f in known_hits)),
                "covers": [{"job": r["job"], **c} for r in real for c in r.get("covers", [])][:400],
                "samples": samples,
                "exhaustive": False,
            },
            "assumptions": mod_assume + ["stub/assumed: " + a for a in assumed] + ["no body (nondet return): " + a for a in nobody]
                           + ["NOT decided, searched for a counterexample only (%s): %s" % (r["reason"][:80], r["job"]) for r in inconclusive],
            "wall_s": round(time.time() - t0, 1),
            "violations": len(violations),
        }
        os.makedirs(os.path.join(VERIF, "evidence"), exist_ok=True)
        # --only / --replay runs never overwrite the evidence; nor does a run against a scratch tree (ALDOR_REPO set, as the
        # seed evaluation does): evidence describes /repo itself
        if not getattr(self, "partial", False) and os.path.realpath(REPO) == "/repo":
            with open(os.path.join(VERIF, "evidence", self.pid + ".json"), "w") as fh:
                json.dump(ev, fh, indent=1)

        for k, f in known_hits:
            print("KNOWN-FINDING: property=%s %s [%s]" % (self.pid, k["what"], f["key"]))
        for f, rp, rep in violations:
            print("VIOLATION property=%s replay=%s obligation=%s%s" % (
                self.pid, rp, f["key"], "" if rep else " no-failing-input-found"))
        for r in undecided:
            print("UNDECIDED property=%s job=%s reason=%s" % (self.pid, r["job"], r["reason"][:300]))
        print("SUMMARY property=%s tier=%s jobs=%d proved_obligations=%d/%d bounded_obligations=%d/%d canaries=%d/%d undecided=%d known=%d violations=%d wall=%.0fs" % (
            self.pid, self.tier, len(real), okP, nP, okB, nB, sum(1 for r in canaries if r["status"] == "ok"),
            len(canaries), len(undecided), len(known_hits), len(violations), time.time() - t0))
        if violations:
            return 1
        if undecided:
            return 2
        return 0


def lib_sources():
    mk = open(os.path.join(SRC, "Makefile.am")).read().replace("\\\n", " ")
    srcs = []
    for lib in ("libport", "libgen", "libstruct", "libphase"):
        m = re.search(r"^%s_a_SOURCES\s*=(.*)$" % lib, mk, re.M)
        if m:
            srcs += m.group(1).split()
    return srcs


def build_real_archive(outdir, extra_cflags=()):
    """Compile every library source of the real compiler from the working tree; returns [archive]."""
    os.makedirs(outdir, exist_ok=True)
    srcs = lib_sources()

    def cc(sname):
        o = os.path.join(outdir, sname.replace("/", "_")[:-2] + ".o")
        rc, so, se, w = sh(["gcc", "-w", "-O0", "-g", "-c", "-I" + SRC, "-DVCSVERSION=\"verif\""] + list(extra_cflags)
                           + [os.path.join(SRC, sname), "-o", o], timeout=300)
        return o if rc == 0 else None
    with cf.ThreadPoolExecutor(max_workers=16) as ex:
        objs = [o for o in ex.map(cc, srcs) if o]
    ar = os.path.join(outdir, "libreal.a")
    if os.path.exists(ar):
        os.unlink(ar)
    sh(["ar", "rcs", ar] + objs, timeout=120)
    return [ar] if os.path.exists(ar) else []


def build_real_aldor(outdir):
    """Build the real compiler binary from the working tree (for source-level replays)."""
    libs = build_real_archive(outdir)
    exe = os.path.join(outdir, "aldor")
    cmd = ["gcc", "-w", "-O0", "-g", "-I" + SRC, "-DVCSVERSION=\"verif\""] + \
          [os.path.join(SRC, x) for x in ("axlcomp.c", "cmdline.c", "main.c")] + libs + ["-lm", "-o", exe]
    rc, so, se, w = sh(cmd, timeout=300)
    return exe if rc == 0 else None


def c_literal(v):
    b = v.get("binary")
    t = v.get("type", "") or ""
    if b and re.match(r"^[01]+$", b) and len(b) <= 64:
        n = int(b, 2)
        if len(b) == 64:
            return "0x%xUL" % n
        return "0x%xU" % n
    d = v.get("data")
    if d is None:
        return None
    if re.match(r"^-?\d+(u|ul|l|ll|ull)?$", str(d)):
        return str(d).upper().replace("L", "L")
    if str(d) in ("TRUE", "true"):
        return "1"
    if str(d) in ("FALSE", "false"):
        return "0"
    return None


def main(argv):
    import argparse
    ap = argparse.ArgumentParser()
    ap.add_argument("pid")
    ap.add_argument("--tier", default=os.environ.get("VERIF_TIER", "quick"))
    ap.add_argument("--only", default=None, help="regex on job names (debugging; evidence then partial)")
    ap.add_argument("--keep", action="store_true")
    ap.add_argument("--replay", default=None, help="path of a replay.json written by an earlier run: re-run its job and native replay")
    ap.add_argument("-j", type=int, default=None)
    a = ap.parse_args(argv)
    if a.replay:
        rj = json.load(open(a.replay))
        a.only = "^" + re.escape(rj["job"]) + "$"
        log("replaying job %s (obligation %s)" % (rj["job"], rj["failed_obligation"]))
    run = Run(a.pid, a.tier, a.only, a.keep, a.j)
    run.partial = bool(a.only)
    try:
        rc = run.main()
    finally:
        run.cleanup()
    return rc


if __name__ == "__main__":
    sys.exit(main(sys.argv[1:]))
