#!/usr/bin/env python3
"""setup_cmd: nothing to build (the framework is python + C harness sources compiled on every run);
verify that the tools the checks need are on PATH and that MANIFEST.json is well formed."""
import json, os, shutil, sys
V = os.path.dirname(os.path.dirname(os.path.abspath(__file__)))
missing = [t for t in ("cbmc", "goto-cc", "goto-instrument", "gcc", "python3") if not shutil.which(t)]
if missing:
    print("missing tools:", missing); sys.exit(1)
m = json.load(open(os.path.join(V, "MANIFEST.json")))
for c in m["checks"]:
    assert os.path.exists(os.path.join(V, "harness", c["property_id"], "jobs.py")), c["property_id"]
os.makedirs(os.path.join(V, "evidence"), exist_ok=True)
print("setup ok:", len(m["checks"]), "checks")
