#!/bin/bash
# confirm_seeds.sh <ID> : in the scratch tree /tmp/wt-<ID>, for the seeds /tmp/seed-<ID>/m*:
#   (1) every demo differs between patched and pristine tree (C demo output / script exit status),
#   (2) with ALL patches applied the tree builds and the repository test suite passes.
# Results go to /tmp/seed-<ID>/confirm.txt
ID=$1; T=/tmp/wt-$ID; R=/tmp/seed-$ID; S=$T/aldor/aldor/src; OUT=$R/confirm.txt; : > $OUT
run_demo() { # $1 = mdir ; prints a digest of demo behaviour
  local m=$1 d; d=$(mktemp -d)
  if [ -f $m/demo.c ]; then ( cd $d && gcc -w -I$S -o demo $m/demo.c $S/libgen.a $S/libport.a -lm 2>&1 | tail -2; ./demo 2>&1 | md5sum ); fi
  for sh in $m/demo*.sh; do [ -f "$sh" ] && ( bash "$sh" > $d/o.txt 2>&1; rc=$?; echo "$(basename $sh) exit=$rc" ); done
  rm -rf $d
}
cd $T || exit 2
git checkout -- . ; (cd $T/aldor && make -j16 > /dev/null 2>&1)
for m in $R/m*; do echo "== $(basename $m) pristine: $(run_demo $m | tr '\n' ' ')" >> $OUT; done
for m in $R/m*; do
  git checkout -- . ; git apply $m/patch.diff || { echo "== $(basename $m) PATCH DOES NOT APPLY" >> $OUT; continue; }
  (cd $T/aldor && make -j16 > $R/build-$(basename $m).log 2>&1); echo "== $(basename $m) build rc=$?" >> $OUT
  echo "== $(basename $m) patched: $(run_demo $m | tr '\n' ' ')" >> $OUT
done
git checkout -- .
for m in $R/m*; do git apply $m/patch.diff; done
(cd $T/aldor && make -j16 > /dev/null 2>&1; make -k -j8 check VERBOSE=1 > $R/confirm-check.log 2>&1; echo "suite with all patches: rc=$? FAIL-lines=$(grep -c '^FAIL' $R/confirm-check.log) PASS-lines=$(grep -c '^PASS' $R/confirm-check.log)" >> $OUT)
git checkout -- . ; (cd $T/aldor && make -j16 > /dev/null 2>&1)
echo DONE >> $OUT
