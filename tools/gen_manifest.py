#!/usr/bin/env python3
"""Regenerates /verif/MANIFEST.json from the table below; a property gets a check entry only if
/verif/harness/<id>/jobs.py exists."""
import json, os
V = os.path.dirname(os.path.dirname(os.path.abspath(__file__)))

CLAIMS = {
 "C04": ("proof", "For each builtin, the real constant folder (cfoldBCall), the real interpreter case (fintEvalBCall) and the real C runtime macro/function are each proved equal to one mathematical spec expression for ALL operand values (full 64-bit / char / bool domains, loop-free harnesses), which gives three-way agreement; float ops by structural equality.", "§3 C04",
         "Contracts c_foamNew/c_fintEval and the allocator stub are assumed; genc operator mapping is extracted mechanically from ccBValInfoTable (labelled extracted); floats: agreement only, no mathematical spec; BInt ops delegated to C11."),
 "C05": ("proof", "Every leaf encoder/decoder pair the saved forms are built from (buffer byte/half/word codecs, FOAM integer formats, foamSIntReduce re-expression of wide integers) is proved inverse for every value; one-node FOAM round trip is bounded.", "§3 C05",
         "Symbol-meaning and type-form sections, archives, .fm text, and whole-program equality are NOT covered; bounded jobs are labelled and not counted as proved."),
 "C07": ("proof", "Two clauses: exit status is non-zero exactly when an error was printed (contract on main/compFilesLoop chain), and no table is indexed by an out-of-range character for any input byte (contracts on keyTag/keyLongest and the C-name mangler).", "§3 C07",
         "Termination and fault-freedom of the whole front end on arbitrary bytes are not decided by this check."),
 "C10": ("proof", "Lemmas the allocator rests on: size-class tables return the smallest class >= n, division-by-lookup equals integer division for every page offset, page-map search returns only free in-range runs, section layout arithmetic keeps info and data disjoint and aligned, stoRecode on fixed pieces; the free-piece B-tree's node steps (split/merge/rotations at t=16) preserve the in-order sequence (bounded: sampled cases).", "§3 C10",
         "Disjointness of live blocks over all histories, piece splitting/coalescing and the collector are NOT decided (integer/pointer casts and stack scanning are outside CBMC's memory model)."),
 "C11": ("proof", "Representation switch, machine-integer conversions, double-word step primitives, immediate fast paths and sign/compare predicates proved for all inputs; add/subtract (every operand shape and sign case, modular over the recursion)/compare/shift/negate exact for operands up to 3 digits (bounded); digit products against the schoolbook expansion and the Knuth-D quotient identity only with one operand a constant of the job (bounded); general multiply/divide, gcd, power, radix conversion undecided and stated.", "§3 C11",
         "Allocator stub; struct-hack arrays sized >= sizeof(struct bint); assume-guarantee models at inner call sites (iintShift, bintPlus/bintMinus re-entries) whose contracts are enforced in other jobs; distributivity of the schoolbook expansion is on paper; z3 4.8.12 for immediate-operand shapes."),
 "C15": ("proof", "Every function that builds, offsets, compares or decodes a packed source position is proved against an abstract (mac,column,line) view for ALL 2^64 words and all columns, so a diagnostic's line never depends on its column and shifts by exactly k under k inserted lines; the global line table mapping is checked for tables of <= 6 segments (bounded).", "§3 C15",
         "Field layout taken from the unit's header comment; include.c's #line state machine and comsg's sorting/printing are outside the contracts."),
 "C17": ("proof", "The readers that first touch an untrusted library file (buffer readers, header validation, section fetch) are proved memory-safe and refusing on every byte string; the FOAM tree decoder is bounded.", "§3 C17",
         "The clause 'or produces exactly the outputs of the intact file' is not decided; fread modelled as filling at most the requested bytes."),
 "C18": ("proof", "Per output writer: if any fclose/fflush/fwrite it performs fails (nondeterministic failing-I/O contracts on libc), an error is reported before the output is marked done.", "§3 C18",
         "libc I/O functions are contracts, text-producing callees are replaced by contracts that may set the I/O-failed ghost."),
 "C19": ("proof", "Native<->portable float conversion is proved the identity on all 2^32 single and all 2^64 double bit patterns (NaN to NaN); dissemble/assemble identity on every non-NaN value; literal conversion agrees between folder and runtime with atof uninterpreted.", "§3 C19",
         "IEEE-754 binary32/64 native formats (constants read from the real cport.h); atof treated as a deterministic uninterpreted function."),
 "C20": ("proof", "Bit-vector point operations and index loops proved for all lengths; word-stepping loops, hash table, heap and DNF checked against their abstract models up to stated sizes; B-tree node steps (split/merge/rotations) against the in-order-sequence contract for t=2,3 and sampled t=16 cases, whole insert and one modular level of delete on height-2 trees per shape (bounded, labelled).", "§3 C20",
         "Bounded jobs are labelled B and never counted as proved; allocator stub; B-tree height >= 3 and the fullest height-2 shapes not covered; btreeDelete0 re-entries bound to a contract model."),
}

NA = {
 "C01": "needs an independent reference evaluator of the whole language related to the ~60k-line front end and FOAM generator; no per-function contract expresses 'prints what the language defines'",
 "C02": "semantic preservation of optimiser passes relates the behaviours of two unbounded FOAM programs; CBMC contracts have no program-equivalence form; the constant-folding/peephole fragment is decided under C04",
 "C03": "whole-program agreement of two 7000-line evaluators (interpreter vs generated C + runtime); only the per-builtin fragment (C04) is within reach of function contracts",
 "C06": "acceptance/rejection is the fixpoint of tiBottomUp/tiTopDown over recursive TForm/Syme graphs; there is no spec function for 'well typed' smaller than the checker itself",
 "C08": "determinism is a 2-safety (two-run) property over pointer-keyed tables and allocator addresses; self-composition of the whole compiler is intractable and CBMC's nondeterministic malloc addresses would make it meaningless",
 "C09": "the collector marks from the machine stack, registers and static data by address arithmetic, none of which exists in CBMC's memory model; the schedule quantifier ranges over whole executions",
 "C12": "Java sources compiled by javac; no deductive verifier for Java is installed and the property is whole-program",
 "C13": "a session-history property of the whole compiler (compile-and-interpret steps with roll-back); not a contract on one call or one data structure",
 "C14": "equality of parse trees of two different texts: a relation between two runs of scanner, lineariser and a yacc-generated parser",
 "C16": "'compiles and links under every option' is not a function contract, and 'distinct entities never share a C name' is false by counting for a fixed-width hash, so it cannot be a theorem; the provable local lemma (mangled names stay in [A-Za-z0-9_], table indexing safe) is carried under C07",
}

# properties whose check is finished and passes on the unchanged tree (edited by hand as checks land)
READY = {"C04", "C05", "C07", "C10", "C11", "C15", "C17", "C18", "C19", "C20"}


def main():
    checks = []
    na = [{"property_id": k, "reason": v} for k, v in sorted(NA.items())]
    for pid, (cat, text, ref, note) in sorted(CLAIMS.items()):
        if pid not in READY or not os.path.exists(os.path.join(V, "harness", pid, "jobs.py")):
            na.append({"property_id": pid, "reason": "claimed in DESIGN.md but its check is not built yet in this commit (contract-based CBMC check planned: %s)" % ref})
            continue
        checks.append({
            "property_id": pid,
            "quick_cmd": "./check %s --tier quick" % pid,
            "thorough_cmd": "./check %s --tier thorough" % pid,
            "evidence_file": "evidence/%s.json" % pid,
            "replay_cmd_template": "./check %s --replay {path}" % pid,
            "engine": "cbmc-contracts",
            "level_claimed": {"category": cat, "text": text, "design_ref": "DESIGN.md " + ref},
            "level_note": note,
            "technique": "contract-based deductive verification: CBMC 6.11 function/loop contracts (goto-instrument --dfcc) on the real C translation units, SAT back end (z3 for the jobs named in DESIGN.md §2.3); plain assertion harnesses over the real included unit where dfcc cannot be used; bounded unwinding only where labelled",
        })
    na.sort(key=lambda x: x["property_id"])
    m = {
        "version": 1,
        "setup_cmd": "python3 tools/selftest.py",
        "hooks": {"guard": "ALDOR_VERIF",
                  "enable": "defined only on the goto-cc command line of /verif harnesses (-DALDOR_VERIF); the repository build never defines it; no source hooks are needed because contracts are separate declarations bound by goto-instrument and statics are reached by textual inclusion",
                  "baseline_off_cmd": "cd /repo/aldor && make -k -j8 check VERBOSE=1",
                  "source_commits": [], "add_only": True},
        "engines": [{"name": "cbmc-contracts", "path": "tools/vlib.py", "serves_properties": [c["property_id"] for c in checks],
                     "kind_free_text": "goto-cc + goto-instrument --dfcc (function and loop contracts) + cbmc 6.11 SAT; native ASan replay of counterexamples against the real sources"}],
        "checks": checks,
        "not_applicable": na,
        "notes": "Exit 2 from a check means undecided (tool limit/timeouts), never a violation. Fixes to /repo are recorded in known_findings.txt as 'fixed:' lines.",
    }
    json.dump(m, open(os.path.join(V, "MANIFEST.json"), "w"), indent=1)
    print("checks:", [c["property_id"] for c in checks])

main()
