/*
 * bint_spec.h -- abstract value and representation invariant of a BInt (property C11).
 *
 * Written from the property statement and from the unit's header comment
 * ("When a number is small enough, it is represented immediately.  Otherwise it is
 *  stored and Placec(b) > 0 && Placev(b)[Placec(b)-1] != 0"), NOT from the code's
 * own conversion macros: the tag bit, the sign-magnitude layout and the digit radix
 * are restated here independently so that a slip in IsImmed/MkImmed/UnImmed or in
 * BINT_RADIX is a disagreement, not a shared definition.
 *
 *   immediate : machine word with bit 0 set; value = word >> 1 (arithmetic)
 *   stored    : pointer to struct bint; value = (isNeg ? -1 : 1) * sum placev[i] * 2^(32 i), i < placec
 *
 * Everything is loop-free and evaluable both by CBMC and by gcc (native replay);
 * magnitudes of up to 4 digits fit unsigned __int128, signed values of up to
 * 3 digits (and their sums/differences) fit signed __int128.
 */
#ifndef BINT_SPEC_H
#define BINT_SPEC_H

typedef __int128           bs_v;   /* signed abstract value   */
typedef unsigned __int128  bs_u;   /* magnitude               */

#define BS_LG            32                         /* digit width: "second largest integer type" */
#define BS_B             (((bs_u) 1) << BS_LG)      /* radix                                      */
#define BS_IMM_MAX       ((long) 0x3fffffffffffffffL)   /* 2^62-1: largest immediate ("BIntToInt(IntToBInt(n)) == n", symmetric) */
#define BS_IMM_MIN       (-BS_IMM_MAX)

/* ---- immediates ---------------------------------------------------------- */
#define BS_IS_IMM(b)     ((((unsigned long)(b)) & 1UL) != 0)
#define BS_IVAL(b)       (((long)(b)) >> 1)
#define BS_FITS_IMM(n)   (BS_IMM_MIN <= (long)(n) && (long)(n) <= BS_IMM_MAX)
#define BS_MKIMM(n)      ((BInt)(((unsigned long)(long)(n) << 1) | 1UL))
/* a well-formed immediate: tag set and value in the symmetric range (every constructor guards with INT_IS_IMMED) */
#define BS_WF_IMM(b)     (BS_IS_IMM(b) && BS_FITS_IMM(BS_IVAL(b)))

/* ---- stored --------------------------------------------------------------
 * Written as (static) FUNCTIONS, not nested conditional macros: each result is then one SSA value for the
 * verifier.  (Probed: the same text as nested ?: macros, evaluated on a pointer with several possible targets,
 * makes CBMC's expression simplifier run for minutes.)  gcc evaluates the same functions in the native replay. */
/* (no spec function calls another one: goto-instrument --dfcc 6.11 mis-instruments nested calls inside contract
 * clauses - "not enough arguments" - so the shared statements are statement macros) */
#define BS__MAG_STMTS(b, m) \
	if ((b)->placec >= 1) m  = (bs_u) (b)->placev[0]; \
	if ((b)->placec >= 2) m |= (bs_u) (b)->placev[1] << 32; \
	if ((b)->placec >= 3) m |= (bs_u) (b)->placev[2] << 64; \
	if ((b)->placec >= 4) m |= (bs_u) (b)->placev[3] << 96
static bs_u bs_mag(const struct bint *b)        /* magnitude from the first min(placec,4) digits */
{
	bs_u m = 0;
	BS__MAG_STMTS(b, m);
	return m;
}
static bs_v bs_sv(const struct bint *b)         /* signed value of a stored number; needs magnitude < 2^127 */
{
	bs_u m = 0;
	BS__MAG_STMTS(b, m);
	return b->isNeg ? -(bs_v) m : (bs_v) m;
}
#define BS_D(b,i)        ((bs_u)(b)->placev[i])
#define BS_MAG(b)        bs_mag(b)
#define BS_SV(b)         bs_sv(b)

/* abstract value of any BInt with <= 4 digits and |value| < 2^127 */
static bs_v bs_v_of(const struct bint *b)
{
	bs_u m = 0;
	if (BS_IS_IMM(b)) return (bs_v) BS_IVAL(b);
	BS__MAG_STMTS(b, m);
	return b->isNeg ? -(bs_v) m : (bs_v) m;
}
#define BS_V(b)          bs_v_of(b)
#define BS_ABS(v)        ((v) < 0 ? (bs_u)(-(v)) : (bs_u)(v))

/* bound used by the size-capped (class B) harnesses */
#define BS_CAP(b,n)      ((b)->placec <= (n) && (b)->placea <= NARY)

/*
 * Representation invariants.
 *  BS_WF_ST(b)   "operand form" of a stored number, as the iint* routines receive it from
 *                bintPlus/bintMinus/... (either a canonical stored number or the result of
 *                xintStore on an immediate): at least one digit, leading digit non-zero
 *                unless the number is the one-digit stored zero.
 *  BS_WF_RES(b)  "result form" produced by the iint* routines and accepted by xintImmedIfCan: no leading
 *                zero digit, except that zero may be left as placec == 0 or as a single zero digit
 *                (iintPlus of two stored zeros keeps the one-digit zero).
 *  BS_WF_OP(b)   operand of the sign-dispatch wrappers (bintPlus, bintMinus, ... and their recursive calls):
 *                an immediate in range, or operand form without "negative zero".
 *  BS_CANON(b)   canonical BInt as seen by every bint* entry point and returned by it:
 *                immediate in range, or stored, normalised and NOT representable as an immediate.
 */
#define BS_TOP_NZ(b)     ((b)->placev[(b)->placec - 1] != 0)
#define BS__WF_ST_STMTS(b) \
	if (BS_IS_IMM(b) || (b) == 0) return 0; \
	if (!((b)->placec >= 1 && (b)->placec <= (b)->placea)) return 0; \
	if (!((b)->isNeg == 0 || (b)->isNeg == 1)) return 0; \
	if (!((b)->placec == 1 || BS_TOP_NZ(b))) return 0
static int bs_wf_st(const struct bint *b)
{
	BS__WF_ST_STMTS(b);
	return 1;
}
static int bs_wf_res(const struct bint *b)
{
	if (BS_IS_IMM(b) || b == 0) return 0;
	if (!(b->placec <= b->placea)) return 0;
	return b->placec <= 1 || BS_TOP_NZ(b);
}
static int bs_wf_op(const struct bint *b)
{
	if (BS_IS_IMM(b)) return BS_WF_IMM(b);
	BS__WF_ST_STMTS(b);
	return !(b->isNeg && b->placec == 1 && b->placev[0] == 0);
}
static int bs_canon_st(const struct bint *b)
{
	BS__WF_ST_STMTS(b);
	if (!(b->placec >= 2 && BS_TOP_NZ(b))) return 0;
	return b->placec > 2 || b->placev[1] >= 0x40000000u;
}
static int bs_canon(const struct bint *b)
{
	if (BS_IS_IMM(b)) return BS_WF_IMM(b);
	BS__WF_ST_STMTS(b);
	if (!(b->placec >= 2 && BS_TOP_NZ(b))) return 0;
	return b->placec > 2 || b->placev[1] >= 0x40000000u;
}
#define BS_WF_ST(b)      bs_wf_st(b)
#define BS_WF_RES(b)     bs_wf_res(b)
#define BS_WF_OP(b)      bs_wf_op(b)
#define BS_CANON_ST(b)   bs_canon_st(b)
#define BS_CANON(b)      bs_canon(b)

/* exact bit length of a magnitude (property: "bit length"); the code defines length(0) = 1 */
#define BS_HAS_LEN(m, l) ((l) >= 1 && (l) <= 128 && ((l) == 128 || ((bs_u)(m) >> (l)) == 0) && \
			  ((m) == 0 ? (l) == 1 : (((bs_u)(m) >> ((l) - 1)) & 1) == 1))
/* bit ix of a magnitude */
#define BS_BIT(m, ix)    ((ix) < 128 && ((((bs_u)(m)) >> ((ix) < 128 ? (ix) : 0)) & 1) != 0)

#endif
